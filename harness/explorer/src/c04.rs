//! C04 — accepted programs compile to code the interpreter can run blindly.
//! O1: explicit-state reachability over the abstract (pc, operand-stack height) space of every compiled
//! function of a large corpus (M-vm, structural invariants in every state).  Conformance: every concrete
//! (function, pc, height) observed while running is a member of the abstract set.  O3: programs sized
//! to sit exactly on each encoding limit are rejected or behave correctly.
use crate::ast::print_program;
use crate::common::*;
use crate::corpus;
use crate::expect::{self, Expect};
use crate::mvm::{self, OpTable};
use crate::pool::{par_map, Obs, Runner};
use crate::{c05, c06, c07, c08, c18};
use proto::{FunctionDump, Request};
use serde_json::json;
use std::collections::{BTreeMap, BTreeSet};

fn opcode_table(ctx: &Ctx) -> (OpTable, Vec<(String, u8)>) {
    let mut r0 = Runner::new(ctx.runner_checked.clone());
    match r0.call(&mut Request { op: "opcodes".into(), ..Default::default() }) {
        Obs::Resp(r) if !r.opcodes.is_empty() => (OpTable::new(&r.opcodes), r.opcodes),
        _ => crate::pool::machinery_failure("runner did not answer the opcodes request"),
    }
}

/// the same analysis with the exceptional edge into finally-only handlers removed: what the code would
/// look like to the verifier without listed finding KF-C04-01
fn without_finally_only_edges(funcs: &[FunctionDump], fi: usize, ops: &OpTable) -> mvm::FuncReport {
    mvm::analyse_opts(funcs, fi, ops, true)
}

#[derive(Default)]
struct O1Acc {
    programs: usize,
    rejected: usize,
    functions: usize,
    states: usize,
    edges: usize,
    unanalysed: usize,
    opcodes: BTreeSet<String>,
    issues_by_kind: BTreeMap<String, usize>,
    attributed: usize,
    violations: Vec<(String, serde_json::Value)>,
    conformance_points: usize,
}

fn all_functions(funcs: &[FunctionDump], root: usize) -> Vec<usize> {
    let mut stack = vec![root];
    let mut seen = BTreeSet::new();
    while let Some(f) = stack.pop() {
        if !seen.insert(f) {
            continue;
        }
        for k in &funcs[f].constants {
            if let Some(g) = k.func {
                stack.push(g);
            }
        }
    }
    seen.into_iter().collect()
}

fn judge_function(acc: &mut O1Acc, funcs: &[FunctionDump], fi: usize, ops: &OpTable, src: &str, family: &str, finding_active: bool) -> mvm::FuncReport {
    let rep = mvm::analyse(funcs, fi, ops);
    acc.functions += 1;
    acc.states += rep.states;
    acc.edges += rep.edges;
    acc.opcodes.extend(rep.opcodes_seen.iter().cloned());
    if rep.unanalysed {
        acc.unanalysed += 1;
        return rep;
    }
    if rep.issues.is_empty() {
        return rep;
    }
    for i in &rep.issues {
        *acc.issues_by_kind.entry(i.kind.clone()).or_insert(0) += 1;
    }
    // attribution: the only listed finding is "finally block entered one slot higher on the exception
    // path"; a function is attributed iff *all* its issues disappear when exactly that edge is removed
    if finding_active {
        let alt = without_finally_only_edges(funcs, fi, ops);
        if alt.issues.is_empty() && rep.issues.iter().all(|i| i.kind == "two_heights" || i.kind == "height_unbounded") {
            acc.attributed += 1;
            return rep;
        }
    }
    if acc.violations.len() < 50 {
        let i = &rep.issues[0];
        acc.violations.push((
            format!("[{}] function `{}` is not blindly runnable: {} at pc {}: {}", family, funcs[fi].name, i.kind, i.pc, i.detail),
            json!({"family": family, "source": src, "function": funcs[fi].name, "issues": rep.issues.iter().map(|i| format!("pc {} {} {}", i.pc, i.kind, i.detail)).collect::<Vec<_>>(), "disassembly": mvm::disassemble(funcs, fi, ops)}),
        ));
    }
    rep
}

/// hashes of the generated programs that are valid by construction (the model's resolver finds nothing
/// wrong with them): the compiler has to accept these
fn valid_by_construction(thorough: bool) -> std::collections::HashSet<u64> {
    let mut set = std::collections::HashSet::new();
    let all = c05::cases_for_c04(thorough).into_iter().chain(c06::cases_for_c04(thorough)).chain(c07::cases_for_c04(thorough)).chain(c08::cases_for_c04(thorough)).chain(c18::cases_for_c04(thorough));
    for c in all {
        let prog = std::sync::Arc::new(c.prog.clone());
        let res = crate::mresolve::Resolver::new().resolve_program(&prog);
        if res.unsupported.is_empty() {
            set.insert(fnv64(&print_program(&prog, false)));
        }
    }
    for (src, _) in operand_sweep() {
        set.insert(fnv64(&src));
    }
    for c in displaced_for_c04(thorough) {
        let prog = std::sync::Arc::new(c.prog.clone());
        let res = crate::mresolve::Resolver::new().resolve_program(&prog);
        if res.unsupported.is_empty() {
            set.insert(fnv64(&print_program(&prog, false)));
        }
    }
    set
}

fn displaced_for_c04(thorough: bool) -> Vec<crate::mcheck::Case> {
    let corpus = crate::metamorph::standard_corpus(if thorough { 1 } else { 8 });
    crate::metamorph::displaced_cases("programs_after_many_locals", &corpus, &[127, 200], &[0])
}

fn corpus_sources(ctx: &Ctx, thorough: bool) -> Vec<(&'static str, String)> {
    let mut v: Vec<(&'static str, String)> = Vec::new();
    for s in corpus::load_scripts(&ctx.repo_dir) {
        v.push(("repo_scripts", s.source));
    }
    v.push(("core_library", corpus::load_core(&ctx.repo_dir)));
    for c in c05::cases_for_c04(thorough) {
        v.push(("c05_programs", print_program(&c.prog, false)));
    }
    for c in c06::cases_for_c04(thorough) {
        v.push(("c06_programs", print_program(&c.prog, false)));
    }
    for c in c07::cases_for_c04(thorough) {
        v.push(("c07_programs", print_program(&c.prog, false)));
    }
    for c in c08::cases_for_c04(thorough) {
        v.push(("c08_programs", print_program(&c.prog, false)));
    }
    for c in c18::cases_for_c04(thorough) {
        v.push(("c18_programs", print_program(&c.prog, false)));
    }
    for (src, _) in operand_sweep() {
        v.push(("operand_sweep_at_function_end", src));
    }
    // the displacement law (metamorph.rs): programs of the standard corpus as the body of a function that
    // has declared 127 / 200 locals first - every slot and capture operand of the program near and beyond
    // the middle of its one-byte range
    for c in displaced_for_c04(thorough) {
        v.push(("programs_after_many_locals", print_program(&c.prog, false)));
    }
    // entering a fiber with every kind of argument value (C09's programs): every one of them goes through
    // the conformance run - a function's first instruction has one operand-stack height whatever is passed
    for e in crate::c09::argument_values() {
        v.push(("fiber_entry_with_every_argument_value", e.request.snippets[0].clone()));
    }
    v
}


/// Operand values at the end of a function.  The last instruction of a function body (before the implicit
/// `return nil`) carries a one-byte operand; the operand takes every value its form allows, so that it
/// coincides with every opcode number once (a function whose last byte *looks like* an instruction must
/// still end in its implicit return).  Each program is explored structurally (no fall-off the end) and run.
pub fn operand_sweep() -> Vec<(String, Vec<String>)> {
    let mut out: Vec<(String, Vec<String>)> = Vec::new();
    let nil_done = || vec!["nil".to_string(), "done".to_string()];
    for k in 0usize..=255 {
        let nums: Vec<String> = (0..k).map(|i| format!("{}", i)).collect();
        let list = nums.join(", ");
        // a local in slot k read by the last statement (slot 0 is the function itself)
        if (1..=254).contains(&k) {
            let decl: String = (1..=k).map(|i| format!("var l{} = {};", i, i)).collect();
            out.push((format!("fn f() {{ {} var x = l{}; }}\nprint(f());\nprint(\"done\");\n", decl, k), nil_done()));
            // the same at the end of an else branch that ends the function, and of a lambda's block body
            if k <= 253 {
                out.push((format!("fn f(c) {{ {} if c {{ return 1; }} else {{ var x = l{}; }} }}\nprint(f(false));\nprint(\"done\");\n", decl, k), nil_done()));
            }
            // captured by the local function that is the last statement: the capture descriptor names slot k
            out.push((format!("fn f() {{ {} fn inner() {{ return l{}; }} }}\nprint(f());\nprint(\"done\");\n", decl, k), nil_done()));
            // constructor with k parameters and an empty body
            let params: Vec<String> = (1..=k).map(|i| format!("p{}", i)).collect();
            let args: Vec<String> = (1..=k).map(|i| format!("{}", i)).collect();
            out.push((format!("class K {{\n  #[constructor]\n  fn new(self, {}) {{}}\n}}\nprint(type(K.new({})));\nprint(\"done\");\n", params.join(", "), args.join(", ")), vec!["<class K>".to_string(), "done".to_string()]));
        }
        if k <= 255 {
            // a call with k arguments, a method call with k arguments
            let params: Vec<String> = (0..k).map(|i| format!("p{}", i)).collect();
            out.push((format!("fn g({}) {{ return {}; }}\nfn f() {{ var x = g({}); }}\nprint(f());\nprint(\"done\");\n", params.join(", "), k, list), nil_done()));
            out.push((format!("#[constructor(new)]\nclass O {{ fn m(self{}{}) {{ return {}; }} }}\nfn f() {{ var o = O.new(); var x = o.m({}); }}\nprint(f());\nprint(\"done\");\n", if k > 0 { ", " } else { "" }, params.join(", "), k, list), nil_done()));
            // literals with k elements / entries / parts
            out.push((format!("fn f() {{ var x = [{}]; }}\nprint(f());\nprint(\"done\");\n", list), nil_done()));
            out.push((format!("fn f() {{ var x = ({}{}); }}\nprint(f());\nprint(\"done\");\n", list, if k == 1 { "," } else { "" }), nil_done()));
            let pairs: Vec<String> = (0..k).map(|i| format!("{}: {}", i, i)).collect();
            out.push((format!("fn f() {{ var x = {{{}}}; }}\nprint(f());\nprint(\"done\");\n", pairs.join(", ")), nil_done()));
            if k >= 1 {
                let parts: String = (0..k).map(|i| format!("${{{}}}", i % 10)).collect();
                out.push((format!("fn f() {{ var x = \"{}\"; }}\nprint(f());\nprint(\"done\");\n", parts), nil_done()));
            }
            // captured variable number k of the enclosing function read by the last statement
            let decl: String = (0..=k).map(|i| format!("var a{} = {};", i, i)).collect();
            let touch: String = (0..k).map(|i| format!("a{};", i)).collect();
            if k <= 250 {
                out.push((format!("fn outer() {{ {} fn inner() {{ {} var x = a{}; }} return inner(); }}\nprint(outer());\nprint(\"done\");\n", decl, touch, k), nil_done()));
            }
        }
    }
    out
}

// ---- O3: limit family ------------------------------------------------------------------------------

/// `n` bytes of filler statements (2-byte `nil;` and 3-byte `!nil;`), n >= 2
fn filler(n: usize) -> String {
    let mut out = String::new();
    let mut left = n;
    if left % 2 == 1 {
        out.push_str("!nil;");
        left -= 3;
    }
    for _ in 0..left / 2 {
        out.push_str("nil;");
    }
    out
}

struct JumpShape {
    name: &'static str,
    /// source as a function of the filler byte count
    make: fn(usize) -> String,
    /// opcode whose operand is measured, and which occurrence (0-based) in the top-level function
    opcode: &'static str,
    occurrence: usize,
    /// operand position: 0 = first 16-bit operand, 1 = second, 2 = third (PushExcHandler)
    operand: usize,
    expect_out: &'static [&'static str],
}

fn jump_shapes() -> Vec<JumpShape> {
    vec![
        JumpShape { name: "if_then", make: |n| format!("if false {{ {} }}\nprint(\"after\");\n", filler(n)), opcode: "JumpIfFalse", occurrence: 0, operand: 0, expect_out: &["after"] },
        JumpShape { name: "else_jump", make: |n| format!("if true {{ print(\"then\"); }} else {{ {} }}\nprint(\"after\");\n", filler(n)), opcode: "Jump", occurrence: 0, operand: 0, expect_out: &["then", "after"] },
        JumpShape { name: "loop_back", make: |n| format!("var i = 0;\nwhile i < 2 {{ i += 1; {} }}\nprint(i);\n", filler(n)), opcode: "Loop", occurrence: 0, operand: 0, expect_out: &["2"] },
        // inside a loop the back jump is always the longest distance, so it is the one that can sit on the limit
        JumpShape { name: "for_loop_back", make: |n| format!("var c = 0;\nfor x in [1, 2] {{ c += x; {} }}\nprint(c);\n", filler(n)), opcode: "Loop", occurrence: 0, operand: 0, expect_out: &["3"] },
        // a handler names its catch target, its finally target and the end of its statement: the last is
        // the longest distance and the one that can sit on the limit (filler in the try body, in the catch
        // block, in the finally block)
        JumpShape { name: "try_statement_size_body", make: |n| format!("try {{ {} throw \"x\"; }} catch e {{ print(e); }}\nprint(\"after\");\n", filler(n)), opcode: "PushExcHandler", occurrence: 0, operand: 2, expect_out: &["x", "after"] },
        JumpShape { name: "try_statement_size_catch", make: |n| format!("try {{ throw \"x\"; }} catch e {{ {} print(e); }} finally {{ print(\"fin\"); }}\n", filler(n)), opcode: "PushExcHandler", occurrence: 0, operand: 2, expect_out: &["x", "fin"] },
        JumpShape { name: "try_statement_size_finally", make: |n| format!("try {{ throw \"x\"; }} catch e {{ print(e); }} finally {{ {} print(\"fin\"); }}\n", filler(n)), opcode: "PushExcHandler", occurrence: 0, operand: 2, expect_out: &["x", "fin"] },
        JumpShape { name: "and_jump", make: |n| format!("fn f() {{ {} return 1; }}\nprint(false && f());\nprint(\"after\");\n", filler(n.min(50))), opcode: "JumpIfFalse", occurrence: 0, operand: 0, expect_out: &["false", "after"] },
    ]
}

fn operand_of(funcs: &[FunctionDump], ops: &[(String, u8)], opcode: &str, occurrence: usize, operand: usize) -> Option<usize> {
    // linear decode of the top-level function
    let f = &funcs[0];
    let name_of = |b: u8| ops.iter().find(|(_, x)| *x == b).map(|(n, _)| n.as_str());
    let table = OpTable::new(ops);
    let _ = table;
    let mut pc = 0;
    let mut seen = 0;
    while pc < f.code.len() {
        let n = name_of(f.code[pc])?;
        let len = mvm::instr_len(funcs, 0, pc, n)?;
        if n == opcode {
            if seen == occurrence {
                let at = pc + 1 + 2 * operand;
                return Some(u16::from_ne_bytes([f.code[at], f.code[at + 1]]) as usize);
            }
            seen += 1;
        }
        pc += len;
    }
    None
}

/// the sources of the limit family with `true` for those that have to be rejected (for C03: compiling any
/// of them terminates without a panic)
pub fn limit_sources(ctx: &Ctx) -> Vec<(String, bool)> {
    let (_, ops_pairs) = opcode_table(ctx);
    let mut scratch = Report::new();
    let mut v: Vec<(String, bool)> = limit_family(ctx, &ops_pairs, &mut scratch).into_iter().map(|e| (e.request.snippets[0].clone(), e.end[0] != "ok")).collect();
    v.extend(operand_sweep().into_iter().map(|(s, _)| (s, false)));
    v
}

/// the limit family for the checks of the properties whose subject sits at a limit: loops and jumps whose
/// distance is the largest the compiler accepts still repeat and leave as the source says (C05); functions
/// that capture or declare as many variables as are allowed still see each of them (C06)
pub fn limit_expects(ctx: &Ctx, families: &[&str]) -> Vec<Expect> {
    let (_, ops_pairs) = opcode_table(ctx);
    let mut scratch = Report::new();
    limit_family(ctx, &ops_pairs, &mut scratch).into_iter().filter(|e| families.contains(&e.family)).collect()
}

fn limit_family(ctx: &Ctx, ops_pairs: &[(String, u8)], report: &mut Report) -> Vec<Expect> {
    let mut out = Vec::new();
    let mut runner = Runner::new(ctx.runner_checked.clone());
    runner.timeout = std::time::Duration::from_secs(120);
    let mut compile = |src: &str| -> Option<Vec<FunctionDump>> {
        let mut req = Request { op: "compile".into(), snippets: vec![src.to_string()], ..Default::default() };
        match runner.call(&mut req) {
            Obs::Resp(r) if !r.functions.is_empty() => Some(r.functions),
            _ => None,
        }
    };
    let mut measured = Vec::new();
    for shape in jump_shapes() {
        if shape.name == "and_jump" {
            continue;
        }
        // operand = base + n (one byte of filler = one byte of distance): measure the base at two sizes
        let a = compile(&(shape.make)(100)).and_then(|f| operand_of(&f, ops_pairs, shape.opcode, shape.occurrence, shape.operand));
        let b = compile(&(shape.make)(200)).and_then(|f| operand_of(&f, ops_pairs, shape.opcode, shape.occurrence, shape.operand));
        let (Some(a), Some(b)) = (a, b) else {
            report.notes.push(format!("limit family: could not measure jump shape {}", shape.name));
            continue;
        };
        if b - a != 100 {
            report.notes.push(format!("limit family: jump shape {} is not linear in the filler size ({} -> {})", shape.name, a, b));
            continue;
        }
        let base = a - 100;
        measured.push(json!({"shape": shape.name, "operand_at_zero_filler": base}));
        for target in [65534usize, 65535, 65536, 65537, 70000, 131071, 131072, 131073] {
            let n = target - base;
            let src = (shape.make)(n);
            // distances up to 65535 fit the 16-bit operand; larger ones must be rejected
            let (exp_out, end): (Vec<String>, String) = if target <= 65535 {
                (shape.expect_out.iter().map(|s| s.to_string()).collect(), "ok".into())
            } else {
                (vec![], "[module \"main\", line".into())
            };
            out.push(Expect {
                family: "limit_jump_distance",
                request: Request { op: "run".into(), snippets: vec![src], fuel: Some(5_000_000), ..Default::default() },
                out: vec![exp_out],
                end: vec![end],
                describe: json!({"shape": shape.name, "distance": target, "filler_bytes": n}),
                nontrivial: true,
            });
        }
    }
    report.cov("limit_jump_shapes_measured", json!(measured));
    // counts: one below / at / one above each limit
    let mk = |family: &'static str, src: String, exp: Vec<&str>, end: &str, d: serde_json::Value| Expect {
        family,
        request: Request { op: "run".into(), snippets: vec![src], fuel: Some(20_000_000), ..Default::default() },
        out: vec![exp.iter().map(|s| s.to_string()).collect()],
        end: vec![end.to_string()],
        describe: d,
        nontrivial: true,
    };
    let cerr = "[module \"main\", line";
    for n in [254usize, 255, 256, 257] {
        // locals: slot 0 + n declared locals
        let decl: String = (0..n).map(|i| format!("var l{} = {};", i, i)).collect();
        let ok = n <= 255;
        out.push(mk("limit_locals", format!("fn f() {{ {} return l{}; }}\nprint(f());\n", decl, n - 1), if ok { vec![Box::leak(format!("{}", n - 1).into_boxed_str())] } else { vec![] }, if ok { "ok" } else { cerr }, json!({"locals": n})));
        // captured variables of one closure, through two enclosing function levels (200 + the rest)
        let a = 200usize;
        let b = n - a;
        let decl_a: String = (0..a).map(|i| format!("var a{} = {};", i, i)).collect();
        let decl_b: String = (0..b).map(|i| format!("var b{} = {};", i, i)).collect();
        let uses: String = (0..a).map(|i| format!("s = s + a{};", i)).chain((0..b).map(|i| format!("s = s + b{};", i))).collect();
        let sum: usize = (0..a).sum::<usize>() + (0..b).sum::<usize>();
        let okc = n <= 256;
        out.push(mk(
            "limit_captures",
            format!("fn f() {{ {} return || {{ {} return || {{ var s = 0; {} return s; }}; }}; }}\nprint(f()()());\n", decl_a, decl_b, uses),
            if okc { vec![Box::leak(format!("{}", sum).into_boxed_str())] } else { vec![] },
            if okc { "ok" } else { cerr },
            json!({"captures": n}),
        ));
        // parameters and arguments
        let params: Vec<String> = (0..n).map(|i| format!("p{}", i)).collect();
        let args: Vec<String> = (0..n).map(|i| format!("{}", i)).collect();
        let okp = n <= 255;
        out.push(mk(
            "limit_parameters_arguments",
            format!("fn f({}) {{ return p{}; }}\nprint(f({}));\n", params.join(", "), n - 1, args.join(", ")),
            if okp { vec![Box::leak(format!("{}", n - 1).into_boxed_str())] } else { vec![] },
            if okp { "ok" } else { cerr },
            json!({"parameters": n}),
        ));
        // elements
        let oke = n <= 255;
        out.push(mk("limit_vec_elements", format!("var v = [{}];\nprint(v.len());\nprint(v[{}]);\n", args.join(", "), n - 1), if oke { vec![Box::leak(format!("{}", n).into_boxed_str()), Box::leak(format!("{}", n - 1).into_boxed_str())] } else { vec![] }, if oke { "ok" } else { cerr }, json!({"elements": n})));
        out.push(mk("limit_tuple_elements", format!("var v = ({});\nprint(v.len());\nprint(v[{}]);\n", args.join(", "), n - 1), if oke { vec![Box::leak(format!("{}", n).into_boxed_str()), Box::leak(format!("{}", n - 1).into_boxed_str())] } else { vec![] }, if oke { "ok" } else { cerr }, json!({"elements": n})));
        let pairs: Vec<String> = (0..n).map(|i| format!("{}: {}", i, i * 2)).collect();
        out.push(mk("limit_map_entries", format!("var m = {{{}}};\nprint(m.len());\nprint(m.get({}));\n", pairs.join(", "), n - 1), if oke { vec![Box::leak(format!("{}", n).into_boxed_str()), Box::leak(format!("{}", (n - 1) * 2).into_boxed_str())] } else { vec![] }, if oke { "ok" } else { cerr }, json!({"entries": n})));
        // interpolation parts: n expression parts
        let parts: String = (0..n).map(|i| format!("${{{}}}", i % 10)).collect();
        let text: String = (0..n).map(|i| format!("{}", i % 10)).collect();
        out.push(mk("limit_interpolation_parts", format!("print(\"{}\");\n", parts), if oke { vec![Box::leak(text.into_boxed_str())] } else { vec![] }, if oke { "ok" } else { cerr }, json!({"parts": n})));
    }
    // interpolation parts in every arrangement: a part is an expression or a non-empty stretch of literal
    // text; P parts in total for P = 253..258 as expressions only, with a literal tail, with a literal head,
    // with both, as literal-expression pairs (with and without a tail), and as expression-literal pairs
    for total in 253usize..=258 {
        for shape in 0..7 {
            // pieces: Some(digit) = expression part, None = literal part "a"
            let mut pieces: Vec<Option<usize>> = Vec::new();
            match shape {
                0 => pieces.extend((0..total).map(|i| Some(i % 10))),
                1 => {
                    pieces.extend((0..total - 1).map(|i| Some(i % 10)));
                    pieces.push(None);
                }
                2 => {
                    pieces.push(None);
                    pieces.extend((0..total - 1).map(|i| Some(i % 10)));
                }
                3 => {
                    pieces.push(None);
                    pieces.extend((0..total - 2).map(|i| Some(i % 10)));
                    pieces.push(None);
                }
                4 | 5 => {
                    // literal first (4) or expression first (5), alternating
                    let mut lit = shape == 4;
                    for i in 0..total {
                        pieces.push(if lit { None } else { Some(i % 10) });
                        lit = !lit;
                    }
                }
                _ => {
                    // two expressions, then a literal, repeated
                    for i in 0..total {
                        pieces.push(if i % 3 == 2 { None } else { Some(i % 10) });
                    }
                }
            }
            let src_text: String = pieces.iter().map(|p| match p { Some(d) => format!("${{{}}}", d), None => "a".to_string() }).collect();
            let printed: String = pieces.iter().map(|p| match p { Some(d) => format!("{}", d), None => "a".to_string() }).collect();
            let okp = total <= 255;
            out.push(mk(
                "limit_interpolation_parts_arranged",
                format!("var before = \"before\";\nvar s = \"{}\";\nvar after = \"after\";\nprint(s);\nprint(before);\nprint(after);\n", src_text),
                if okp { vec![Box::leak(printed.into_boxed_str()), "before", "after"] } else { vec![] },
                if okp { "ok" } else { cerr },
                json!({"parts": total, "arrangement": shape}),
            ));
        }
    }
    // the local that reaches the limit is declared by each declaring form in turn (k plain locals, then
    // the form, then uses of the first and last plain local and of what the form computed)
    let forms: [(&str, &str, usize, i64); 6] = [
        ("for_loop", "for v in [10, 20] { acc = acc + v; }", 2, 30),
        ("catch_variable", "try { throw 5; } catch e { acc = acc + e; }", 1, 5),
        ("local_function", "fn g() { return 7; } acc = acc + g();", 1, 7),
        ("local_class", "class C { #[static] fn s() { return 9; } } acc = acc + C.s();", 1, 9),
        ("block_local", "{ var z = 3; acc = acc + z; }", 1, 3),
        ("derived_local_class", "#[derive(Base)] class D { #[static] fn s() { return 11; } } acc = acc + D.s();", 2, 11),
    ];
    for (name, form, extra, add) in forms {
        for k in 250usize..=256 {
            // `acc` is the first local; k - 1 further plain locals
            let decl: String = (1..k).map(|i| format!("var l{} = {};", i, i)).collect();
            let ok = k + extra <= 255;
            let want = add + 1 + (k as i64 - 1);
            out.push(mk(
                "limit_locals_by_declaring_form",
                format!("class Base {{}}\nfn f() {{ var acc = 0; {} {} return acc + l1 + l{}; }}\nprint(f());\n", decl, form, k - 1),
                if ok { vec![Box::leak(format!("{}", want).into_boxed_str())] } else { vec![] },
                if ok { "ok" } else { cerr },
                json!({"form": name, "plain_locals": k, "locals_of_the_form": extra}),
            ));
        }
    }
    // constants in one chunk: the names `x`, `print` take two entries
    for n in [65533usize, 65534, 65535] {
        let stmts: String = (0..n).map(|i| format!("x = {};", i + 7)).collect();
        let total = n + 2;
        let okk = total <= 65536;
        out.push(mk("limit_constants", format!("var x = 7;\n{}\nprint(x);\n", stmts), if okk { vec![Box::leak(format!("{}", n + 6).into_boxed_str())] } else { vec![] }, if okk { "ok" } else { cerr }, json!({"constants": total})));
    }
    out
}

pub fn run(ctx: &Ctx) -> Report {
    let mut report = Report::new();
    let active = active_findings(ctx, &mut report);
    let finding_active = active.iter().any(|f| f.id == "KF-C04-01");
    let thorough = ctx.thorough();
    let (ops, ops_pairs) = opcode_table(ctx);
    let sources = corpus_sources(ctx, thorough);
    let must_compile = valid_by_construction(thorough);
    let must_compile_ref = &must_compile;
    let n_sources = sources.len();
    let mut fam_count: BTreeMap<String, usize> = BTreeMap::new();
    for (f, _) in &sources {
        *fam_count.entry(f.to_string()).or_insert(0) += 1;
    }

    // ---- O1 + conformance ----------------------------------------------------------------------------
    let ops_ref = &ops;
    let batches: Vec<Vec<(&'static str, String)>> = sources.chunks(100).map(|c| c.to_vec()).collect();
    let accs = par_map(&ctx.runner_checked, ctx.workers, batches.into_iter(), |runner, bi, batch| {
        runner.timeout = std::time::Duration::from_secs(120);
        let mut acc = O1Acc::default();
        let mut req = Request { op: "compile_batch".into(), snippets: batch.iter().map(|(_, s)| s.clone()).collect(), want: vec!["dump".into()], ..Default::default() };
        let obs = runner.call(&mut req);
        let Some(r) = obs.resp() else {
            acc.violations.push((format!("compiling a corpus batch ended in {}", obs.describe()), json!({"batch": bi})));
            return acc;
        };
        for (i, (family, src)) in batch.iter().enumerate() {
            acc.programs += 1;
            match r.batch_roots.get(i).copied().flatten() {
                Some(root) => {
                    for fi in all_functions(&r.functions, root) {
                        judge_function(&mut acc, &r.functions, fi, ops_ref, src, family, finding_active);
                    }
                }
                None => {
                    acc.rejected += 1;
                    if must_compile_ref.contains(&fnv64(src)) {
                        acc.violations.push((
                            format!("[{}] the compiler did not accept a generated program that is valid by construction (rejected, or it panicked)", family),
                            json!({"family": family, "source": src, "problem": "valid program not accepted by the compiler"}),
                        ));
                    }
                }
            }
        }
        // conformance on every 10th batch (quick) / every batch (thorough): run with the instruction trace
        // and require every concrete (function, pc, height) to be in the abstract reachable set
        let always = batch.iter().any(|(f, _)| *f == "fiber_entry_with_every_argument_value");
        if thorough || always || bi % 10 == 0 {
            for (family, src) in batch.iter().take(if thorough || always { 100 } else { 40 }) {
                if *family == "core_library" {
                    continue;
                }
                let mut req = Request { op: "run".into(), snippets: vec![src.clone()], fuel: Some(300_000), want: vec!["dump".into(), "trace".into()], ..Default::default() };
                let obs = runner.call(&mut req);
                let Some(r) = obs.resp() else { continue };
                if r.functions.is_empty() {
                    continue;
                }
                let reps: Vec<mvm::FuncReport> = (0..r.functions.len()).map(|fi| mvm::analyse(&r.functions, fi, ops_ref)).collect();
                let by_addr: BTreeMap<usize, usize> = r.functions.iter().enumerate().map(|(i, f)| (f.code_addr, i)).collect();
                for (base, off, h) in &r.trace {
                    if let Some(&fi) = by_addr.get(base) {
                        if reps[fi].unanalysed {
                            continue;
                        }
                        acc.conformance_points += 1;
                        let ok = reps[fi].reach.get(off).map(|s| s.contains(h)).unwrap_or(false);
                        if !ok {
                            if acc.violations.len() < 50 {
                                acc.violations.push((
                                    format!("[conformance] the VM executed function `{}` at pc {} with operand-stack height {}, which the abstract exploration says is unreachable (abstract heights there: {:?})", r.functions[fi].name, off, h, reps[fi].reach.get(off)),
                                    json!({"family": "conformance", "source": src, "function": r.functions[fi].name, "pc": off, "height": h, "disassembly": mvm::disassemble(&r.functions, fi, ops_ref)}),
                                ));
                            }
                            break;
                        }
                    }
                }
            }
        }
        acc
    });
    let mut acc = O1Acc::default();
    for a in accs {
        acc.programs += a.programs;
        acc.rejected += a.rejected;
        acc.functions += a.functions;
        acc.states += a.states;
        acc.edges += a.edges;
        acc.unanalysed += a.unanalysed;
        acc.opcodes.extend(a.opcodes);
        for (k, v) in a.issues_by_kind {
            *acc.issues_by_kind.entry(k).or_insert(0) += v;
        }
        acc.attributed += a.attributed;
        acc.violations.extend(a.violations);
        acc.conformance_points += a.conformance_points;
    }
    if acc.functions < 1000 || acc.opcodes.len() < 55 {
        crate::pool::machinery_failure(&format!("vacuous C04 run: {} functions, {} distinct opcodes", acc.functions, acc.opcodes.len()));
    }
    if acc.unanalysed > 0 {
        report.notes.push(format!("{} functions contain an opcode the stack-effect table does not know and were not judged", acc.unanalysed));
    }

    // ---- O3 ------------------------------------------------------------------------------------------
    let mut limits = limit_family(ctx, &ops_pairs, &mut report);
    for (src, exp) in operand_sweep() {
        limits.push(Expect {
            family: "operand_value_sweep_at_function_end",
            request: Request { op: "run".into(), snippets: vec![src], fuel: Some(2_000_000), ..Default::default() },
            out: vec![exp],
            end: vec!["ok".into()],
            describe: json!({}),
            nontrivial: true,
        });
    }
    let n_limits = limits.len();
    let lstats = expect::run_expect(ctx, &ctx.runner_checked, limits.into_iter(), &|_e, _r| None, &|_e, _p| None);

    report.cov("states", json!(acc.states));
    report.cov("transitions", json!(acc.edges));
    report.cov("traces_validated_against_impl", json!(acc.conformance_points));
    report.cov("evaluations", json!(acc.functions + n_limits));
    report.cov("distinct_nontrivial", json!(acc.functions));
    report.cov("exhaustive", json!(true));
    report.cov("rule", json!("O1: for every function compiled from the corpus (repository scripts, core.yl, and every program of the C05/C06/C07/C08/C18 generators at their quick bounds) the abstract state space (pc, operand-stack height) is explored exhaustively by worklist, with exceptional edges into catch/finally targets and the return edges of finally blocks; in every state: operands inside the code, jump targets on instruction boundaries, constants in range and of the right kind, local slot < height, capture indices in range, no underflow, no fall-off; each pc has exactly one height. Conformance: with the instruction-trace hook every concretely executed (function, pc, height) must be in the abstract set. O3: for each jump kind a body is sized (2- and 3-byte filler statements, operand measured from the emitted code) so that the distance is 65534..65537, 70000 and 131071..131073 (twice the operand's range); counts of locals (plain, and with the limit reached by a for loop, a catch variable, a local function, a local class, a block local, a derived local class), captures, parameters/arguments, vec/tuple/map elements, interpolation parts at 254..257 (and 253..258 in seven arrangements of expression and literal parts) and constants at the chunk limit: each program is rejected with a compile error or prints exactly the expected lines. Operand sweep: the last instruction of a function body carries a one-byte operand (local slot, capture slot, argument count of a call / method call, element count of a vec / tuple / map literal, interpolation parts, captured-variable index, parameter count of an empty constructor) that takes every value 0..255 its form allows - so it coincides with every opcode number - at the end of a function, of an else branch that ends the function, and in a trailing local function's capture list: each program is explored structurally (no fall-off the end) and run."));
    report.cov("bounds", json!({"corpus_programs": n_sources, "limit_programs": n_limits}));
    report.cov("corpus_by_family", json!(fam_count));
    report.cov("functions_analysed", json!(acc.functions));
    report.cov("programs_rejected_by_compiler", json!(acc.rejected));
    report.cov("distinct_opcodes_covered", json!(acc.opcodes.len()));
    report.cov("issues_by_kind_before_attribution", json!(acc.issues_by_kind));
    report.cov("functions_attributed_to_KF-C04-01", json!(acc.attributed));
    report.cov("conformance_points_checked", json!(acc.conformance_points));
    report.cov("limit_family", json!(lstats.by_family));
    report.cov("samples", json!(lstats.samples.iter().map(|s| s.get("case").cloned().unwrap_or_default()).collect::<Vec<_>>()));
    report.assumptions = vec![
        "M-vm's stack-effect table is bound to the compiler's output by the conformance run (a wrong table shows up as concrete states outside the abstract set)".into(),
        "the handler stack is taken to be the static nesting of try regions; whether the dynamic handler stack follows it is C08's question".into(),
        "`every variable access hits the variable the source names, on every path` is decided behaviourally by C05 (statement trees on every input vector) and C06; here only structurally (slot < height, one height per pc)".into(),
    ];
    let mut attributed = BTreeMap::new();
    attributed.insert("KF-C04-01".to_string(), acc.attributed);
    record_known(&mut report, &active, &attributed);
    report.violations.extend(acc.violations);
    report.violations.extend(lstats.violations);
    report
}
