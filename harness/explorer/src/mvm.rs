//! M-vm: explicit-state reachability over the abstract state space (pc, operand-stack height) of one
//! compiled function, with the structural invariants of property C04 checked in every reachable state.
//! The opcode table is keyed by *name* (the runner exports name -> discriminant from the crate's own
//! enum), so renumbering opcodes changes nothing and an unknown opcode makes a function `unanalysed`
//! instead of producing a verdict.
use proto::FunctionDump;
use std::collections::{BTreeMap, BTreeSet, HashMap, VecDeque};

#[derive(Clone, Debug, PartialEq, Eq, PartialOrd, Ord)]
pub struct Issue {
    pub func: usize,
    pub pc: usize,
    /// short machine-readable kind, e.g. "two_heights", "jump_outside", "bad_local"
    pub kind: String,
    pub detail: String,
}

#[derive(Default, Clone, Debug)]
pub struct FuncReport {
    pub states: usize,
    pub edges: usize,
    pub issues: Vec<Issue>,
    pub unanalysed: bool,
    /// pc -> set of heights (for conformance with concrete traces)
    pub reach: BTreeMap<usize, BTreeSet<usize>>,
    /// pcs at which the single-height rule does not apply (Return / Throw)
    pub exempt: BTreeSet<usize>,
    /// opcode names seen
    pub opcodes_seen: BTreeSet<String>,
}

pub struct OpTable {
    by_byte: HashMap<u8, String>,
}

impl OpTable {
    pub fn new(pairs: &[(String, u8)]) -> OpTable {
        OpTable { by_byte: pairs.iter().map(|(n, b)| (*b, n.clone())).collect() }
    }
    pub fn name(&self, b: u8) -> Option<&str> {
        self.by_byte.get(&b).map(|s| s.as_str())
    }
}

/// operand byte count for an opcode name (Closure's variable tail is handled by the caller)
fn operand_len(name: &str) -> Option<usize> {
    Some(match name {
        "Constant" | "GetGlobal" | "DefineGlobal" | "SetGlobal" | "GetProperty" | "SetProperty"
        | "GetSuper" | "Jump" | "JumpIfFalse" | "JumpIfStopIter" | "Loop" | "Closure"
        | "DeclareClass" | "Method" | "StaticMethod" | "StartImport" => 2,
        "GetLocal" | "SetLocal" | "GetUpvalue" | "SetUpvalue" | "BuildHashMap" | "BuildString"
        | "BuildTuple" | "BuildVec" | "Call" | "Construct" => 1,
        "Invoke" | "SuperInvoke" => 3,
        "PushExcHandler" => 6,
        "Nil" | "True" | "False" | "Pop" | "CopyTop" | "GetClass" | "Equal" | "Greater" | "Less"
        | "Add" | "Subtract" | "Multiply" | "Divide" | "BitwiseAnd" | "BitwiseOr" | "BitwiseXor"
        | "Modulo" | "LogicalNot" | "BitwiseNot" | "BitShiftLeft" | "BitShiftRight" | "Negate"
        | "GetItem" | "SetItem" | "FormatString" | "BuildRange" | "IterNext" | "JumpFinally"
        | "EndFinally" | "PopExcHandler" | "Throw" | "CloseUpvalue" | "Return" | "DefineClass"
        | "Inherit" | "FinishImport" => 0,
        _ => return None,
    })
}

fn u16_at(code: &[u8], pos: usize) -> usize {
    u16::from_ne_bytes([code[pos], code[pos + 1]]) as usize
}

#[derive(Clone, Copy, Debug)]
struct Instr<'a> {
    name: &'a str,
    len: usize,
}

/// Heights above this are reported as `height_unbounded` and not explored further: the abstract state
/// space must stay finite even for code whose stack grows on every trip round a loop.
pub const HEIGHT_CAP: usize = 1200;

#[derive(Clone, Debug)]
struct TryRegion {
    push_pc: usize,
    body_start: usize,
    catch_target: usize,
    finally_target: usize,
    /// just past the EndFinally that closes the statement (third operand)
    end: usize,
}

/// Analyse function `fi` of `funcs`.
pub fn analyse(funcs: &[FunctionDump], fi: usize, ops: &OpTable) -> FuncReport {
    analyse_opts(funcs, fi, ops, false)
}

/// `skip_finally_only_exc`: leave out the exceptional edge into handlers that have no catch block
/// (used only to decide whether a function's issues are all due to that one listed finding)
pub fn analyse_opts(funcs: &[FunctionDump], fi: usize, ops: &OpTable, skip_finally_only_exc: bool) -> FuncReport {
    let f = &funcs[fi];
    let code = &f.code;
    let mut rep = FuncReport::default();
    let mut issue = |rep: &mut FuncReport, pc: usize, kind: &str, detail: String| {
        if rep.issues.len() < 64 {
            rep.issues.push(Issue { func: fi, pc, kind: kind.to_string(), detail });
        }
    };
    if f.lines.len() != code.len() {
        issue(&mut rep, 0, "lines_len", format!("lines {} != code {}", f.lines.len(), code.len()));
    }
    if code.is_empty() {
        issue(&mut rep, 0, "empty_code", "function has no code".into());
        return rep;
    }
    // ---- linear decode: instruction boundaries -------------------------------------------------
    let mut instrs: BTreeMap<usize, Instr> = BTreeMap::new();
    let mut pc = 0;
    while pc < code.len() {
        let name: &str = match ops.name(code[pc]) {
            Some(n) => n,
            None => {
                issue(&mut rep, pc, "unknown_opcode", format!("byte {}", code[pc]));
                rep.unanalysed = true;
                return rep;
            }
        };
        let mut len = match operand_len(name) {
            Some(l) => 1 + l,
            None => {
                rep.unanalysed = true;
                rep.opcodes_seen.insert(name.to_string());
                return rep;
            }
        };
        if pc + len > code.len() {
            issue(&mut rep, pc, "operand_outside", format!("{} operands run past the end", name));
            return rep;
        }
        if name == "Closure" {
            let ci = u16_at(code, pc + 1);
            match f.constants.get(ci).and_then(|c| c.func) {
                Some(g) => len += 2 * funcs[g].upvalue_count,
                None => {
                    issue(&mut rep, pc, "closure_const", format!("constant {} is not a function", ci));
                    return rep;
                }
            }
            if pc + len > code.len() {
                issue(&mut rep, pc, "operand_outside", "closure descriptors run past the end".into());
                return rep;
            }
        }
        if !rep.opcodes_seen.contains(name) {
            rep.opcodes_seen.insert(name.to_string());
        }
        instrs.insert(pc, Instr { name, len });
        pc += len;
    }
    // ---- static try regions ---------------------------------------------------------------------
    let mut regions: Vec<TryRegion> = Vec::new();
    for (&pc, ins) in &instrs {
        if ins.name == "PushExcHandler" {
            let try_size = u16_at(code, pc + 1);
            let catch_size = u16_at(code, pc + 3);
            let statement_size = u16_at(code, pc + 5);
            let body_start = pc + 7;
            regions.push(TryRegion {
                push_pc: pc,
                body_start,
                catch_target: body_start + try_size,
                finally_target: body_start + try_size + catch_size,
                end: body_start + statement_size,
            });
        }
    }
    // while a catch block runs, a handler installed on its entry routes every exit from it to the finally
    // target: a second region per statement with a catch block, covering that block
    let guards: Vec<TryRegion> = regions
        .iter()
        .filter(|r| r.catch_target < r.finally_target)
        .map(|r| TryRegion { push_pc: r.push_pc, body_start: r.catch_target, catch_target: r.finally_target, finally_target: r.finally_target, end: r.end })
        .collect();
    let innermost = |pc: usize| -> Option<&TryRegion> {
        regions
            .iter()
            .chain(guards.iter())
            .filter(|r| pc >= r.body_start && pc < r.catch_target)
            .max_by_key(|r| r.body_start)
    };
    // Which handler does a JumpFinally pop?  A return (break, continue) that leaves several try statements
    // is compiled as a chain - `JumpFinally JumpFinally .. Return`, or `Nil JumpFinally Pop` repeated - and
    // the n-th JumpFinally of a chain runs after n finally blocks have finished: it pops the n-th
    // enclosing handler, innermost first.
    let prev_of: BTreeMap<usize, usize> = {
        let pcs: Vec<usize> = instrs.keys().copied().collect();
        pcs.windows(2).map(|w| (w[1], w[0])).collect()
    };
    let name_at = |pc: usize| -> &str { instrs.get(&pc).map(|i| i.name).unwrap_or("") };
    let chain_index = |pc: usize| -> usize {
        let mut idx = 0;
        let mut cur = pc;
        loop {
            let Some(&p1) = prev_of.get(&cur) else { break };
            if name_at(p1) == "JumpFinally" {
                idx += 1;
                cur = p1;
                continue;
            }
            if name_at(p1) == "Nil" {
                if let Some(&p2) = prev_of.get(&p1) {
                    if name_at(p2) == "Pop" {
                        if let Some(&p3) = prev_of.get(&p2) {
                            if name_at(p3) == "JumpFinally" {
                                idx += 1;
                                cur = p3;
                                continue;
                            }
                        }
                    }
                }
            }
            break;
        }
        idx
    };
    let jf_target = |pc: usize| -> Option<&TryRegion> {
        let mut enclosing: Vec<&TryRegion> = regions.iter().chain(guards.iter()).filter(|r| pc >= r.body_start && pc < r.catch_target).collect();
        enclosing.sort_by_key(|r| std::cmp::Reverse(r.body_start));
        enclosing.get(chain_index(pc)).copied()
    };
    let _ = &innermost;
    // JumpFinally sites per finally target (for EndFinally's return successors)
    let mut jf_sites: BTreeMap<usize, Vec<usize>> = BTreeMap::new();
    for (&pc, ins) in &instrs {
        if ins.name == "JumpFinally" {
            if let Some(r) = jf_target(pc) {
                jf_sites.entry(r.finally_target).or_default().push(pc);
            }
        }
    }
    // for EndFinally: which finally target does it close?  The handler names the end of its statement
    // (third operand); that position must be just past an EndFinally, and targets must be ordered.
    let mut end_to_finally: BTreeMap<usize, usize> = BTreeMap::new();
    for r in &regions {
        let ok = r.end >= 1 && instrs.get(&(r.end - 1)).map(|i| i.name == "EndFinally").unwrap_or(false) && r.finally_target < r.end && r.catch_target <= r.finally_target;
        if !ok {
            issue(&mut rep, r.push_pc, "handler_end_misplaced", format!("handler names catch {} / finally {} / end {}: the end is not just past an EndFinally after the finally target", r.catch_target, r.finally_target, r.end));
        } else if end_to_finally.insert(r.end - 1, r.finally_target).is_some() {
            issue(&mut rep, r.push_pc, "handler_end_shared", format!("two handlers name the EndFinally at {}", r.end - 1));
        }
    }
    let finally_of_end = |end_pc: usize| -> Option<usize> { end_to_finally.get(&end_pc).copied() };
    // ---- worklist over (pc, height) --------------------------------------------------------------
    let mut heights_at_push: BTreeMap<usize, BTreeSet<usize>> = BTreeMap::new();
    let mut seen: BTreeSet<(usize, usize)> = BTreeSet::new();
    let mut work: VecDeque<(usize, usize)> = VecDeque::new();
    let start = (0usize, f.arity);
    seen.insert(start);
    work.push_back(start);
    let const_kind = |i: usize| -> Option<&str> { f.constants.get(i).map(|c| c.kind.as_str()) };
    while let Some((pc, h)) = work.pop_front() {
        rep.states += 1;
        rep.reach.entry(pc).or_default().insert(h);
        let ins = match instrs.get(&pc) {
            Some(i) => *i,
            None => {
                if pc >= code.len() {
                    issue(&mut rep, pc, "fall_off_end", format!("control reaches offset {} of {}", pc, code.len()));
                } else {
                    issue(&mut rep, pc, "mid_instruction", "control reaches the middle of an instruction".into());
                }
                continue;
            }
        };
        let name = ins.name;
        let next = pc + ins.len;
        if h > HEIGHT_CAP {
            issue(&mut rep, pc, "height_unbounded", format!("operand stack reaches height {} (cap {})", h, HEIGHT_CAP));
            continue;
        }
        let mut succ: Vec<(usize, isize)> = Vec::new(); // (target pc, new height)
        let hi = h as isize;
        let mut need = |n: usize, rep: &mut FuncReport| -> bool {
            if h < n {
                if rep.issues.len() < 64 {
                    rep.issues.push(Issue {
                        func: fi,
                        pc,
                        kind: "stack_underflow".into(),
                        detail: format!("{} needs {} operands, height is {}", name, n, h),
                    });
                }
                false
            } else {
                true
            }
        };
        let mut check_const = |kind: &str, rep: &mut FuncReport| {
            let ci = u16_at(code, pc + 1);
            match const_kind(ci) {
                None => {
                    if rep.issues.len() < 64 {
                        rep.issues.push(Issue { func: fi, pc, kind: "bad_constant".into(), detail: format!("{} names constant {} of {}", name, ci, f.constants.len()) });
                    }
                }
                Some(k) if kind != "any" && k != kind => {
                    if rep.issues.len() < 64 {
                        rep.issues.push(Issue { func: fi, pc, kind: "constant_kind".into(), detail: format!("{} needs a {} constant, {} is {}", name, kind, ci, k) });
                    }
                }
                _ => {}
            }
        };
        match name {
            "Constant" => {
                check_const("any", &mut rep);
                succ.push((next, hi + 1));
            }
            "Nil" | "True" | "False" => succ.push((next, hi + 1)),
            "Pop" | "CloseUpvalue" => {
                if need(1, &mut rep) {
                    succ.push((next, hi - 1));
                }
            }
            "CopyTop" => {
                if need(1, &mut rep) {
                    succ.push((next, hi + 1));
                }
            }
            "GetLocal" | "SetLocal" => {
                let slot = code[pc + 1] as usize;
                if slot >= h {
                    issue(&mut rep, pc, "bad_local", format!("{} slot {} with height {}", name, slot, h));
                }
                if name == "GetLocal" {
                    succ.push((next, hi + 1));
                } else if need(1, &mut rep) {
                    succ.push((next, hi));
                }
            }
            "GetGlobal" => {
                check_const("str", &mut rep);
                succ.push((next, hi + 1));
            }
            "DefineGlobal" => {
                check_const("str", &mut rep);
                if need(1, &mut rep) {
                    succ.push((next, hi - 1));
                }
            }
            "SetGlobal" => {
                check_const("str", &mut rep);
                if need(1, &mut rep) {
                    succ.push((next, hi));
                }
            }
            "GetUpvalue" | "SetUpvalue" => {
                let idx = code[pc + 1] as usize;
                if idx >= f.upvalue_count {
                    issue(&mut rep, pc, "bad_upvalue", format!("{} index {} of {}", name, idx, f.upvalue_count));
                }
                if name == "GetUpvalue" {
                    succ.push((next, hi + 1));
                } else if need(1, &mut rep) {
                    succ.push((next, hi));
                }
            }
            "GetProperty" => {
                check_const("str", &mut rep);
                if need(1, &mut rep) {
                    succ.push((next, hi));
                }
            }
            "SetProperty" => {
                check_const("str", &mut rep);
                if need(2, &mut rep) {
                    succ.push((next, hi - 1));
                }
            }
            "GetClass" | "LogicalNot" | "BitwiseNot" | "Negate" | "FormatString" | "DefineClass" => {
                if need(1, &mut rep) {
                    succ.push((next, hi));
                }
            }
            "GetSuper" => {
                check_const("str", &mut rep);
                if need(2, &mut rep) {
                    succ.push((next, hi - 1));
                }
            }
            "Equal" | "Greater" | "Less" | "Add" | "Subtract" | "Multiply" | "Divide" | "BitwiseAnd"
            | "BitwiseOr" | "BitwiseXor" | "Modulo" | "BitShiftLeft" | "BitShiftRight" | "GetItem"
            | "BuildRange" | "Inherit" => {
                if need(2, &mut rep) {
                    succ.push((next, hi - 1));
                }
            }
            "SetItem" => {
                if need(3, &mut rep) {
                    succ.push((next, hi - 2));
                }
            }
            "BuildHashMap" => {
                let n = code[pc + 1] as usize;
                if need(2 * n, &mut rep) {
                    succ.push((next, hi - 2 * n as isize + 1));
                }
            }
            "BuildString" | "BuildTuple" | "BuildVec" => {
                let n = code[pc + 1] as usize;
                if need(n, &mut rep) {
                    succ.push((next, hi - n as isize + 1));
                }
            }
            "IterNext" => {
                if need(1, &mut rep) {
                    succ.push((next, hi + 1));
                }
            }
            "Jump" => succ.push((next + u16_at(code, pc + 1), hi)),
            "JumpIfFalse" | "JumpIfStopIter" => {
                if need(1, &mut rep) {
                    succ.push((next, hi));
                    succ.push((next + u16_at(code, pc + 1), hi));
                }
            }
            "Loop" => {
                let off = u16_at(code, pc + 1);
                if off > next {
                    issue(&mut rep, pc, "jump_outside", format!("Loop by {} from {}", off, next));
                } else {
                    succ.push((next - off, hi));
                }
            }
            "PushExcHandler" => {
                heights_at_push.entry(pc).or_default().insert(h);
                let r = regions.iter().find(|r| r.push_pc == pc).unwrap();
                if r.catch_target > code.len() || r.finally_target > code.len() {
                    issue(&mut rep, pc, "jump_outside", format!("handler targets {} / {} outside code of {}", r.catch_target, r.finally_target, code.len()));
                } else {
                    succ.push((next, hi));
                    // exceptional edge: anything in the body may throw; the handler restores the height
                    // at the push; a catch block receives the exception on the stack, a statement with
                    // only a finally block keeps it off the operand stack until the block has ended
                    if r.catch_target == r.finally_target {
                        if !skip_finally_only_exc {
                            succ.push((r.catch_target, hi));
                        }
                    } else {
                        succ.push((r.catch_target, hi + 1));
                        // an exception raised in the catch block goes on to the finally target, waiting
                        // off the stack
                        if !skip_finally_only_exc {
                            succ.push((r.finally_target, hi));
                        }
                    }
                }
            }
            "PopExcHandler" | "EndFinally" => {
                succ.push((next, hi));
                if name == "EndFinally" {
                    if let Some(ft) = finally_of_end(pc) {
                        if let Some(sites) = jf_sites.get(&ft) {
                            for &s in sites {
                                // resume at the instruction after the JumpFinally with the saved value
                                succ.push((s + 1, hi + 1));
                            }
                        }
                    }
                }
            }
            "JumpFinally" => {
                if need(1, &mut rep) {
                    match jf_target(pc) {
                        Some(r) => {
                            let hs = heights_at_push.get(&r.push_pc).cloned().unwrap_or_default();
                            if hs.is_empty() {
                                // the push has not been reached yet on this worklist order: revisit later
                                // by re-queueing after the push is processed (handled below)
                            }
                            for hp in hs {
                                succ.push((r.finally_target, hp as isize));
                            }
                        }
                        None => issue(&mut rep, pc, "jump_finally_no_handler", "JumpFinally outside any try body".into()),
                    }
                }
            }
            "Throw" | "Return" => {
                rep.exempt.insert(pc);
                need(1, &mut rep);
            }
            "Call" => {
                let n = code[pc + 1] as usize;
                if need(n + 1, &mut rep) {
                    succ.push((next, hi - n as isize));
                }
            }
            "Construct" => {
                let n = code[pc + 1] as usize;
                if need(n + 1, &mut rep) {
                    succ.push((next, hi));
                }
            }
            "Invoke" => {
                check_const("str", &mut rep);
                let n = code[pc + 3] as usize;
                if need(n + 1, &mut rep) {
                    succ.push((next, hi - n as isize));
                }
            }
            "SuperInvoke" => {
                check_const("str", &mut rep);
                let n = code[pc + 3] as usize;
                if need(n + 2, &mut rep) {
                    succ.push((next, hi - n as isize - 1));
                }
            }
            "Closure" => {
                let ci = u16_at(code, pc + 1);
                if let Some(g) = f.constants.get(ci).and_then(|c| c.func) {
                    let n = funcs[g].upvalue_count;
                    for k in 0..n {
                        let is_local = code[pc + 3 + 2 * k];
                        let index = code[pc + 4 + 2 * k] as usize;
                        if is_local > 1 {
                            issue(&mut rep, pc, "bad_capture", format!("descriptor {} has is_local={}", k, is_local));
                        } else if is_local == 1 {
                            // the VM pushes the new closure before resolving descriptors
                            if index > h {
                                issue(&mut rep, pc, "bad_capture", format!("captures local {} with height {}", index, h));
                            }
                        } else if index >= f.upvalue_count {
                            issue(&mut rep, pc, "bad_capture", format!("captures upvalue {} of {}", index, f.upvalue_count));
                        }
                    }
                }
                succ.push((next, hi + 1));
            }
            "DeclareClass" => {
                check_const("str", &mut rep);
                succ.push((next, hi + 1));
            }
            "Method" | "StaticMethod" => {
                check_const("str", &mut rep);
                if need(1, &mut rep) {
                    succ.push((next, hi - 1));
                }
            }
            "StartImport" => {
                check_const("str", &mut rep);
                succ.push((next, hi + 2));
            }
            "FinishImport" => {
                if need(2, &mut rep) {
                    succ.push((next, hi - 1));
                }
            }
            _ => {
                rep.unanalysed = true;
                return rep;
            }
        }
        for (t, nh) in succ {
            rep.edges += 1;
            if nh < 0 {
                issue(&mut rep, pc, "negative_height", format!("{} leaves height {}", name, nh));
                continue;
            }
            if t > code.len() || (t == code.len()) {
                issue(&mut rep, pc, if t == code.len() { "fall_off_end" } else { "jump_outside" }, format!("{} at {} continues at {} of {}", name, pc, t, code.len()));
                continue;
            }
            if !instrs.contains_key(&t) {
                issue(&mut rep, pc, "mid_instruction", format!("{} at {} targets {} which is not an instruction boundary", name, pc, t));
                continue;
            }
            let st = (t, nh as usize);
            if seen.insert(st) {
                work.push_back(st);
            }
        }
        // a newly discovered push height may enable JumpFinally edges of already-visited sites
        if name == "PushExcHandler" {
            let r = regions.iter().find(|r| r.push_pc == pc).unwrap().clone();
            for (&spc, sins) in instrs.range(r.body_start..r.finally_target) {
                if sins.name == "JumpFinally" {
                    if let Some(ir) = jf_target(spc) {
                        if ir.push_pc == pc && rep.reach.contains_key(&spc) {
                            let st = (r.finally_target, h);
                            if r.finally_target < code.len() && seen.insert(st) {
                                rep.edges += 1;
                                work.push_back(st);
                            }
                        }
                    }
                }
            }
        }
    }
    // ---- single height per pc --------------------------------------------------------------------
    for (pc, hs) in &rep.reach {
        if hs.len() > 1 && !rep.exempt.contains(pc) {
            let name = instrs.get(pc).map(|i| i.name.to_string()).unwrap_or_default();
            let v: Vec<String> = hs.iter().map(|h| h.to_string()).collect();
            if rep.issues.len() < 64 {
                rep.issues.push(Issue {
                    func: fi,
                    pc: *pc,
                    kind: "two_heights".into(),
                    detail: format!("{} reachable with operand-stack heights {{{}}}", name, v.join(",")),
                });
            }
        }
    }
    rep.issues.sort();
    rep.issues.dedup();
    rep
}

/// Classification helper used for known-finding attribution: where do the `two_heights` issues of a
/// function start?  Returns the smallest pc with two heights.
pub fn first_two_heights(rep: &FuncReport) -> Option<usize> {
    rep.issues.iter().filter(|i| i.kind == "two_heights").map(|i| i.pc).min()
}

/// Human-readable disassembly (used in replay artefacts).
pub fn disassemble(funcs: &[FunctionDump], fi: usize, ops: &OpTable) -> Vec<String> {
    let f = &funcs[fi];
    let code = &f.code;
    let mut out = Vec::new();
    let mut pc = 0;
    while pc < code.len() {
        let name = match ops.name(code[pc]) {
            Some(n) => n.to_string(),
            None => {
                out.push(format!("{:5} ??? {}", pc, code[pc]));
                break;
            }
        };
        let mut len = 1 + operand_len(&name).unwrap_or(0);
        if name == "Closure" && pc + 2 < code.len() {
            let ci = u16_at(code, pc + 1);
            if let Some(g) = f.constants.get(ci).and_then(|c| c.func) {
                len += 2 * funcs[g].upvalue_count;
            }
        }
        let end = (pc + len).min(code.len());
        let operands: Vec<String> = code[pc + 1..end].iter().map(|b| b.to_string()).collect();
        out.push(format!("{:5} L{:<4} {} {}", pc, f.lines.get(pc).copied().unwrap_or(-1), name, operands.join(" ")));
        pc += len;
    }
    out
}

/// length in bytes of the instruction `name` at `pc` of function `fi`
pub fn instr_len(funcs: &[FunctionDump], fi: usize, pc: usize, name: &str) -> Option<usize> {
    let f = &funcs[fi];
    let mut len = 1 + operand_len(name)?;
    if name == "Closure" {
        let ci = u16_at(&f.code, pc + 1);
        let g = f.constants.get(ci).and_then(|c| c.func)?;
        len += 2 * funcs[g].upvalue_count;
    }
    Some(len)
}
