//! The runner: the only process in which the real yarel crate executes.  Reads one JSON request per
//! line on stdin, answers one JSON response per line on stdout.  A panic inside yarel is caught and
//! reported; after reporting one the process exits (the thread-local heap may be inconsistent) and
//! the explorer starts a fresh runner.  Crashes (SIGSEGV/SIGABRT) are observed by the explorer.
use std::cell::RefCell;
use std::collections::BTreeMap;
use std::io::{self, BufRead, Write};
use std::panic::{self, AssertUnwindSafe};

use proto::*;
use yarel::chunk::OpCode;
use yarel::compiler;
use yarel::error::{Error, ErrorKind};
use yarel::memory::Root;
use yarel::object::ObjFunction;
use yarel::value::Value;
use yarel::vm::{self, Vm};

thread_local! {
    static OUTPUT: RefCell<Vec<String>> = RefCell::new(Vec::new());
    static MODULES: RefCell<BTreeMap<String, String>> = RefCell::new(BTreeMap::new());
    static PANIC_MSG: RefCell<Option<String>> = RefCell::new(None);
    static PROBES: RefCell<Vec<HeapDump>> = RefCell::new(Vec::new());
}

fn local_print(vm: &mut Vm, num_args: usize) -> Result<Value, Error> {
    if num_args != 1 {
        return Err(Error::with_message(
            ErrorKind::TypeError,
            "Expected one argument to 'print'.",
        ));
    }
    let text = format!("{}", vm.native_arg(1));
    OUTPUT.with(|o| o.borrow_mut().push(text));
    Ok(Value::None)
}

fn module_loader(path: &str) -> Result<String, Error> {
    MODULES.with(|m| match m.borrow().get(path) {
        Some(s) => Ok(s.clone()),
        None => Err(Error::with_message(
            ErrorKind::ImportError,
            &format!("Unable to read file '{}.yl' (file not found).", path),
        )),
    })
}

macro_rules! raise_native {
    ($name:ident, $kind:expr) => {
        fn $name(_vm: &mut Vm, _n: usize) -> Result<Value, Error> {
            Err(Error::with_message($kind, "host native failed"))
        }
    };
}
raise_native!(raise_attribute, ErrorKind::AttributeError);
raise_native!(raise_compile, ErrorKind::CompileError);
raise_native!(raise_import, ErrorKind::ImportError);
raise_native!(raise_index, ErrorKind::IndexError);
raise_native!(raise_name, ErrorKind::NameError);
raise_native!(raise_runtime, ErrorKind::RuntimeError);
raise_native!(raise_type, ErrorKind::TypeError);
raise_native!(raise_value, ErrorKind::ValueError);

fn host_ok(_vm: &mut Vm, _n: usize) -> Result<Value, Error> {
    Ok(Value::Number(42.0))
}

/// `heap_probe()`: collect now and record what is alive, from inside the running program
#[cfg(feature = "hooks")]
fn heap_probe(_vm: &mut Vm, _n: usize) -> Result<Value, Error> {
    yarel::memory::verif::force_collect();
    let d = heap_dump();
    PROBES.with(|p| p.borrow_mut().push(d));
    Ok(Value::None)
}

fn kind_name(kind: ErrorKind) -> &'static str {
    match kind {
        ErrorKind::AttributeError => "AttributeError",
        ErrorKind::CompileError => "CompileError",
        ErrorKind::ImportError => "ImportError",
        ErrorKind::IndexError => "IndexError",
        ErrorKind::NameError => "NameError",
        ErrorKind::RuntimeError => "RuntimeError",
        ErrorKind::TypeError => "TypeError",
        ErrorKind::ValueError => "ValueError",
    }
}

fn config_string() -> String {
    let mut s = String::new();
    s.push_str(if cfg!(debug_assertions) { "checked" } else { "opt" });
    if cfg!(feature = "hooks") {
        s.push_str("+hooks");
    }
    for (f, on) in [
        ("safe_active_fiber", cfg!(feature = "safe_active_fiber")),
        ("safe_class_lookup", cfg!(feature = "safe_class_lookup")),
        ("safe_stack", cfg!(feature = "safe_stack")),
        ("safe_vm_opcodes", cfg!(feature = "safe_vm_opcodes")),
        ("debug_stress_gc", cfg!(feature = "debug_stress_gc")),
    ] {
        if on {
            s.push('+');
            s.push_str(f);
        }
    }
    s
}

fn opcode_table() -> Vec<(String, u8)> {
    macro_rules! ops { ($($n:ident),* $(,)?) => { vec![$((stringify!($n).to_string(), OpCode::$n as u8)),*] } }
    ops!(
        Constant, Nil, True, False, Pop, CopyTop, GetLocal, SetLocal, GetGlobal, DefineGlobal,
        SetGlobal, GetUpvalue, SetUpvalue, GetProperty, SetProperty, GetClass, GetSuper, Equal,
        Greater, Less, Add, Subtract, Multiply, Divide, BitwiseAnd, BitwiseOr, BitwiseXor, Modulo,
        LogicalNot, BitwiseNot, BitShiftLeft, BitShiftRight, Negate, GetItem, SetItem, FormatString,
        BuildHashMap, BuildRange, BuildString, BuildTuple, BuildVec, IterNext, Jump, JumpIfFalse,
        JumpIfStopIter, Loop, JumpFinally, EndFinally, PushExcHandler, PopExcHandler, Throw, Call,
        Invoke, Construct, SuperInvoke, Closure, CloseUpvalue, Return, DeclareClass, DefineClass,
        Inherit, Method, StaticMethod, StartImport, FinishImport,
    )
}

fn dump_function(f: &ObjFunction, out: &mut Vec<FunctionDump>) -> usize {
    let index = out.len();
    out.push(FunctionDump::default());
    let chunk = f.chunk;
    let mut constants = Vec::new();
    for c in chunk.constants.iter() {
        constants.push(match c {
            Value::Number(n) => ConstDump { kind: "num".into(), text: format!("{}", n), func: None },
            Value::ObjString(s) => ConstDump { kind: "str".into(), text: s.as_str().to_owned(), func: None },
            Value::ObjFunction(g) => {
                let i = dump_function(&**g, out);
                ConstDump { kind: "fn".into(), text: String::new(), func: Some(i) }
            }
            _ => ConstDump { kind: "other".into(), text: String::new(), func: None },
        });
    }
    out[index] = FunctionDump {
        name: f.name.as_str().to_owned(),
        arity: f.arity,
        upvalue_count: f.upvalue_count,
        code: chunk.code.clone(),
        // (whatever integer type the line table uses)
        lines: chunk.lines.iter().map(|l| *l as i32).collect(),
        constants,
        code_addr: chunk.code.as_ptr() as usize,
    };
    index
}

#[cfg(feature = "hooks")]
fn heap_dump() -> HeapDump {
    use yarel::memory::verif;
    let s = verif::heap_stats();
    HeapDump {
        bytes_allocated: s.bytes_allocated,
        live_bytes: verif::live_bytes(),
        threshold: s.threshold,
        objects: s.objects,
        rooted: s.rooted,
        by_type: s.by_type,
        collections: s.collections,
        allocations: s.allocations,
        quarantined: s.quarantined,
        quarantined_by_type: verif::quarantined_by_type(),
    }
}

fn register_natives(vm: &mut Vm, natives: &[String]) {
    for n in natives {
        if let Some(kind) = n.strip_prefix("raise:") {
            let (name, f): (&str, yarel::object::NativeFn) = match kind {
                "AttributeError" => ("raise_AttributeError", raise_attribute),
                "CompileError" => ("raise_CompileError", raise_compile),
                "ImportError" => ("raise_ImportError", raise_import),
                "IndexError" => ("raise_IndexError", raise_index),
                "NameError" => ("raise_NameError", raise_name),
                "RuntimeError" => ("raise_RuntimeError", raise_runtime),
                "TypeError" => ("raise_TypeError", raise_type),
                "ValueError" => ("raise_ValueError", raise_value),
                _ => continue,
            };
            vm.define_native("main", name, f);
        } else if n == "host_ok" {
            vm.define_native("main", "host_ok", host_ok);
        } else if n == "heap_probe" {
            #[cfg(feature = "hooks")]
            vm.define_native("main", "heap_probe", heap_probe);
        } else if let Some(rest) = n.strip_prefix("intern_global:") {
            if let Some((name, text)) = rest.split_once(':') {
                let s = vm.new_gc_obj_string(text);
                vm.set_global("main", name, Value::ObjString(s));
            }
        }
    }
}

fn run_snippet(vm: &mut Vm, src: &str, req: &Request, resp: &mut Response) -> SnippetResult {
    OUTPUT.with(|o| o.borrow_mut().clear());
    let wants_dump = req.want.iter().any(|w| w == "dump");
    let result = panic::catch_unwind(AssertUnwindSafe(|| -> Result<Value, Error> {
        #[cfg(feature = "hooks")]
        {
            vm.verif_state().fuel = req.fuel;
        }
        if wants_dump {
            let function: Root<ObjFunction> = compiler::compile(vm, src.to_string(), None)?;
            let base = resp.functions.len();
            let _ = base;
            dump_function(&*function, &mut resp.functions);
            vm.execute(function, &[])
        } else {
            vm::interpret(vm, src.to_string(), None)
        }
    }));
    let out = OUTPUT.with(|o| std::mem::take(&mut *o.borrow_mut()));
    let outcome = match result {
        Ok(Ok(_)) => Outcome::Ok,
        Ok(Err(e)) => Outcome::Err {
            kind: kind_name(e.kind()).to_string(),
            messages: e.messages().clone(),
        },
        Err(_) => Outcome::Panic {
            msg: PANIC_MSG.with(|p| p.borrow_mut().take()).unwrap_or_default(),
        },
    };
    SnippetResult { out, outcome }
}

fn handle_run(req: &Request, resp: &mut Response) -> bool {
    let mut panicked = false;
    MODULES.with(|m| *m.borrow_mut() = req.modules.clone());
    #[cfg(feature = "hooks")]
    {
        use yarel::memory::verif::{self, GcMode};
        let (mode, quarantine) = match &req.gc {
            None => (GcMode::Default, false),
            Some(g) => (
                match g.mode.as_str() {
                    "never" => GcMode::Never,
                    "only" => GcMode::Only(g.only.clone()),
                    _ => GcMode::Default,
                },
                g.quarantine,
            ),
        };
        // The Vm constructor runs with the default schedule so that every configuration starts from the
        // same heap; the requested schedule applies to the snippets.
        verif::set_gc_mode(GcMode::Default);
        verif::set_quarantine(false);
        verif::set_alloc_log(false);
        let _ = (mode.clone(), quarantine);
    }
    #[cfg(not(feature = "hooks"))]
    {
        if req.gc.is_some() {
            resp.unsupported.push("gc".into());
        }
        for w in &req.want {
            if ["uaf", "heap", "alloc_log", "trace", "monitor", "store"].contains(&w.as_str()) {
                resp.unsupported.push(w.clone());
            }
        }
    }
    let made = panic::catch_unwind(AssertUnwindSafe(|| {
        let mut vm = Vm::with_built_ins();
        vm.set_printer(local_print);
        vm.set_module_loader(module_loader);
        vm
    }));
    let mut vm = match made {
        Ok(vm) => vm,
        Err(_) => {
            resp.results.push(SnippetResult {
                out: vec![],
                outcome: Outcome::Panic {
                    msg: format!(
                        "Vm construction: {}",
                        PANIC_MSG.with(|p| p.borrow_mut().take()).unwrap_or_default()
                    ),
                },
            });
            return true;
        }
    };
    register_natives(&mut vm, &req.natives);
    #[cfg(feature = "hooks")]
    {
        use yarel::memory::verif::{self, GcMode};
        verif::reset_counters();
        if let Some(g) = &req.gc {
            verif::set_gc_mode(match g.mode.as_str() {
                "never" => GcMode::Never,
                "only" => GcMode::Only(g.only.clone()),
                _ => GcMode::Default,
            });
            // "paced_always": the threshold-paced path of an optimised build collects at every allocation
            verif::set_pace_at_every_allocation(g.mode == "paced_always");
            verif::set_quarantine(g.quarantine);
        }
        if req.want.iter().any(|w| w == "alloc_log") {
            verif::set_alloc_log(true);
        }
        let st = vm.verif_state();
        st.trace_enabled = req.want.iter().any(|w| w == "trace");
        st.trace_cap = 2_000_000;
        st.monitor_enabled = req.want.iter().any(|w| w == "monitor");
    }
    // what an embedding may hold on to across runs and resets: compiled functions and values it read
    // from globals (rooted for as long as it keeps them)
    let mut kept_functions: Vec<Root<ObjFunction>> = Vec::new();
    let mut kept_values: BTreeMap<String, (Value, Box<dyn std::any::Any>)> = BTreeMap::new();
    for src in &req.snippets {
        if let Some(rest) = src.strip_prefix("\u{0}host:") {
            // host-side steps between programs (none of them prints; each reports Ok or what failed)
            let r = panic::catch_unwind(AssertUnwindSafe(|| -> Result<(), String> {
                if let Some(text) = rest.strip_prefix("compile_keep:") {
                    let f = compiler::compile(&mut vm, text.to_string(), None).map_err(|e| format!("{:?}", e.messages()))?;
                    kept_functions.push(f);
                    Ok(())
                } else if let Some(text) = rest.strip_prefix("define_native_in:") {
                    // "module:name": the host defines a native function in a module of its choosing
                    let (module, name) = text.split_once(':').ok_or("module:name expected")?;
                    vm.define_native(module, name, host_ok);
                    Ok(())
                } else if let Some(text) = rest.strip_prefix("set_global_in:") {
                    // "module:name:kind": the host makes an object through the public constructors, holds its
                    // root while it stores the value as a global of a module of its choosing, then lets go
                    let mut it = text.splitn(3, ':');
                    let (module, name, kind) = (it.next().ok_or("module")?, it.next().ok_or("name")?, it.next().ok_or("kind")?);
                    match kind {
                        "string" => {
                            let v = vm.new_gc_obj_string("made by the host");
                            vm.set_global(module, name, Value::ObjString(v));
                        }
                        "vec" => {
                            let r = vm.new_root_obj_vec();
                            let e = vm.new_gc_obj_string("element made by the host");
                            r.borrow_mut().elements.push(Value::ObjString(e));
                            r.borrow_mut().elements.push(Value::Number(7.0));
                            vm.set_global(module, name, Value::ObjVec(r.as_gc()));
                        }
                        "tuple" => {
                            let e = vm.new_gc_obj_string("element made by the host");
                            let r = vm.new_root_obj_tuple(vec![Value::ObjString(e), Value::Number(7.0)]);
                            vm.set_global(module, name, Value::ObjTuple(r.as_gc()));
                        }
                        "range" => {
                            let r = vm.new_root_obj_range(3, 9);
                            vm.set_global(module, name, Value::ObjRange(r.as_gc()));
                        }
                        "hash_map" => {
                            let r = vm.new_root_obj_hash_map();
                            let k = vm.new_gc_obj_string("key made by the host");
                            r.borrow_mut().elements.insert(Value::ObjString(k), Value::Number(7.0));
                            vm.set_global(module, name, Value::ObjHashMap(r.as_gc()));
                        }
                        "error" => {
                            let m = vm.new_gc_obj_string("message made by the host");
                            let r = vm.new_root_obj_err(Value::ObjString(m));
                            vm.set_global(module, name, Value::ObjInstance(r.as_gc()));
                        }
                        "stop_iter" => {
                            let r = vm.new_root_obj_stop_iter();
                            vm.set_global(module, name, Value::ObjInstance(r.as_gc()));
                        }
                        "number" => vm.set_global(module, name, Value::Number(7.0)),
                        other => return Err(format!("unknown kind {}", other)),
                    }
                    Ok(())
                } else if let Some(text) = rest.strip_prefix("compile_keep_in:") {
                    // "module:source": compile a program for a module name of the host's choosing and keep it
                    let (module, text) = text.split_once(':').ok_or("module:source expected")?;
                    let f = compiler::compile(&mut vm, text.to_string(), Some(module)).map_err(|e| format!("{:?}", e.messages()))?;
                    kept_functions.push(f);
                    Ok(())
                } else if let Some(k) = rest.strip_prefix("keep_global:") {
                    let v = vm.global("main", k).ok_or_else(|| format!("no global {}", k))?;
                    let root: Box<dyn std::any::Any> = match v {
                        Value::ObjString(g) => Box::new(g.as_root()),
                        Value::ObjClosure(g) => Box::new(g.as_root()),
                        Value::ObjClass(g) => Box::new(g.as_root()),
                        Value::ObjInstance(g) => Box::new(g.as_root()),
                        Value::ObjTuple(g) => Box::new(g.as_root()),
                        Value::ObjVec(g) => Box::new(g.as_root()),
                        Value::ObjHashMap(g) => Box::new(g.as_root()),
                        Value::ObjRange(g) => Box::new(g.as_root()),
                        Value::ObjFiber(g) => Box::new(g.as_root()),
                        Value::ObjBoundMethod(g) => Box::new(g.as_root()),
                        Value::ObjBoundNative(g) => Box::new(g.as_root()),
                        Value::ObjModule(g) => Box::new(g.as_root()),
                        Value::ObjFunction(g) => Box::new(g.as_root()),
                        Value::ObjNative(g) => Box::new(g.as_root()),
                        Value::ObjStringIter(g) => Box::new(g.as_root()),
                        Value::ObjTupleIter(g) => Box::new(g.as_root()),
                        Value::ObjVecIter(g) => Box::new(g.as_root()),
                        Value::ObjRangeIter(g) => Box::new(g.as_root()),
                        Value::Boolean(_) | Value::Number(_) | Value::None => Box::new(()),
                    };
                    kept_values.insert(k.to_string(), (v, root));
                    Ok(())
                } else if let Some(k) = rest.strip_prefix("restore_global:") {
                    let (v, _) = kept_values.get(k).ok_or_else(|| format!("nothing kept under {}", k))?;
                    vm.set_global("main", k, *v);
                    Ok(())
                } else if let Some(text) = rest.strip_prefix("make_string_global:") {
                    // "name:text": a string the host makes now
                    let (name, text) = text.split_once(':').ok_or("name:text expected")?;
                    let sref = vm.new_gc_obj_string(text);
                    vm.set_global("main", name, Value::ObjString(sref));
                    Ok(())
                } else if let Some(text) = rest.strip_prefix("run_in:") {
                    // "module:source": run a program under a module name of the host's choosing, as
                    // `interpret(vm, source, Some(module))` does; what it prints goes to the next result
                    let (module, src) = text.split_once(':').ok_or("module:source expected")?;
                    OUTPUT.with(|o| o.borrow_mut().clear());
                    match vm::interpret(&mut vm, src.to_string(), Some(module)) {
                        Ok(_) => Ok(()),
                        Err(e) => Err(format!("{}", e.messages().get(0).cloned().unwrap_or_default())),
                    }
                } else if let Some(text) = rest.strip_prefix("show_global:") {
                    // "module:name": what the host sees when it reads that global
                    let (module, name) = text.split_once(':').ok_or("module:name expected")?;
                    let shown = match vm.global(module, name) {
                        Some(v) => format!("{}", v),
                        None => "<no such global>".to_string(),
                    };
                    OUTPUT.with(|o| o.borrow_mut().push(shown));
                    Ok(())
                } else {
                    Err(format!("unknown host step {}", rest))
                }
            }));
            let outcome = match r {
                Ok(Ok(())) => Outcome::Ok,
                Ok(Err(m)) => Outcome::Err { kind: "HostStep".into(), messages: vec![m] },
                Err(_) => Outcome::Panic { msg: PANIC_MSG.with(|p| p.borrow_mut().take()).unwrap_or_default() },
            };
            let is_panic = matches!(outcome, Outcome::Panic { .. });
            let out = if rest.starts_with("run_in:") || rest.starts_with("show_global:") { OUTPUT.with(|o| std::mem::take(&mut *o.borrow_mut())) } else { vec![] };
            resp.results.push(SnippetResult { out, outcome });
            if is_panic {
                panicked = true;
                break;
            }
            continue;
        }
        if let Some(k) = src.strip_prefix("\u{0}run_kept:") {
            // execute a function compiled (and kept) earlier
            OUTPUT.with(|o| o.borrow_mut().clear());
            let idx: usize = k.trim().parse().unwrap_or(0);
            let f = kept_functions.get(idx).cloned();
            let result = panic::catch_unwind(AssertUnwindSafe(|| -> Result<Value, Error> {
                #[cfg(feature = "hooks")]
                {
                    vm.verif_state().fuel = req.fuel;
                }
                match f {
                    Some(f) => vm.execute(f, &[]),
                    None => Err(Error::with_message(ErrorKind::RuntimeError, "no kept function")),
                }
            }));
            let out = OUTPUT.with(|o| std::mem::take(&mut *o.borrow_mut()));
            let outcome = match result {
                Ok(Ok(_)) => Outcome::Ok,
                Ok(Err(e)) => Outcome::Err { kind: kind_name(e.kind()).to_string(), messages: e.messages().clone() },
                Err(_) => Outcome::Panic { msg: PANIC_MSG.with(|p| p.borrow_mut().take()).unwrap_or_default() },
            };
            let is_panic = matches!(outcome, Outcome::Panic { .. });
            resp.results.push(SnippetResult { out, outcome });
            if is_panic {
                panicked = true;
                break;
            }
            continue;
        }
        if src == RESET_SNIPPET {
            let r = panic::catch_unwind(AssertUnwindSafe(|| vm.reset()));
            let outcome = match r {
                Ok(()) => {
                    // `reset` re-registers the built-in globals with the printer it remembers; host
                    // natives are part of the embedding, so the runner re-registers those.
                    register_natives(&mut vm, &req.natives);
                    Outcome::Ok
                }
                Err(_) => Outcome::Panic {
                    msg: PANIC_MSG.with(|p| p.borrow_mut().take()).unwrap_or_default(),
                },
            };
            if matches!(outcome, Outcome::Panic { .. }) {
                panicked = true;
            }
            resp.results.push(SnippetResult { out: vec![], outcome });
            if panicked {
                break;
            }
            continue;
        }
        let r = run_snippet(&mut vm, src, req, resp);
        let is_panic = matches!(r.outcome, Outcome::Panic { .. });
        resp.results.push(r);
        if is_panic {
            panicked = true;
            break;
        }
    }
    if panicked {
        std::mem::forget(kept_functions);
        std::mem::forget(kept_values);
    } else {
        drop(kept_functions);
        drop(kept_values);
    }
    #[cfg(feature = "hooks")]
    {
        use yarel::memory::verif::{self, GcMode};
        resp.allocs = verif::alloc_index();
        resp.uaf = verif::take_events();
        {
            let st = vm.verif_state();
            resp.steps = st.steps;
            resp.monitor_checks = st.monitor_checks;
            resp.monitor_failures = st.monitor_failures;
            resp.trace = std::mem::take(&mut st.trace);
        }
        if req.want.iter().any(|w| w == "alloc_log") {
            resp.alloc_log = verif::take_alloc_log();
            verif::set_alloc_log(false);
        }
        if req.want.iter().any(|w| w == "store") {
            let (slots, size, _mask) = vm.verif_string_store_dump();
            resp.store = Some((size, slots.len()));
        }
        resp.probes = PROBES.with(|p| std::mem::take(&mut *p.borrow_mut()));
        if req.want.iter().any(|w| w == "gc_then_heap") {
            // what survives a collection while the interpreter is still alive
            verif::set_gc_mode(GcMode::Default);
            verif::force_collect();
            resp.heap = Some(heap_dump());
        } else if req.want.iter().any(|w| w == "heap") {
            resp.heap = Some(heap_dump());
        }
        verif::set_gc_mode(GcMode::Default);
        verif::set_pace_at_every_allocation(false);
        if panicked {
            // Do not touch the heap further.
            std::mem::forget(vm);
            return true;
        }
        if req.drop_vm_stats {
            drop(vm);
            verif::set_quarantine(false);
            verif::force_collect();
            resp.heap_after_drop = Some(heap_dump());
        } else {
            drop(vm);
        }
        verif::set_quarantine(false);
        verif::purge();
    }
    #[cfg(not(feature = "hooks"))]
    {
        if panicked {
            std::mem::forget(vm);
            return true;
        }
        drop(vm);
    }
    panicked
}

fn handle_compile(req: &Request, resp: &mut Response) -> bool {
    let src = req.snippets.get(0).cloned().unwrap_or_default();
    let r = panic::catch_unwind(AssertUnwindSafe(|| {
        let mut vm = Vm::with_built_ins();
        match compiler::compile(&mut vm, src, None) {
            Ok(f) => {
                let mut fs = Vec::new();
                dump_function(&*f, &mut fs);
                (Some(fs), None)
            }
            Err(e) => (None, Some((kind_name(e.kind()).to_string(), e.messages().clone()))),
        }
    }));
    match r {
        Ok((Some(fs), _)) => {
            resp.functions = fs;
            resp.results.push(SnippetResult { out: vec![], outcome: Outcome::Ok });
            false
        }
        Ok((None, Some((kind, messages)))) => {
            resp.compile_error = Some(messages.clone());
            resp.results.push(SnippetResult { out: vec![], outcome: Outcome::Err { kind, messages } });
            false
        }
        Ok(_) => false,
        Err(_) => {
            resp.results.push(SnippetResult {
                out: vec![],
                outcome: Outcome::Panic {
                    msg: PANIC_MSG.with(|p| p.borrow_mut().take()).unwrap_or_default(),
                },
            });
            true
        }
    }
}

/// Compile every snippet on one shared interpreter (as a long-lived embedding would); per snippet
/// Ok / Err / Panic.  Stops at the first panic.
fn handle_compile_batch(req: &Request, resp: &mut Response) -> bool {
    let wants_dump = req.want.iter().any(|w| w == "dump");
    let made = panic::catch_unwind(AssertUnwindSafe(Vm::with_built_ins));
    let mut vm = match made {
        Ok(vm) => vm,
        Err(_) => return true,
    };
    for src in &req.snippets {
        let r = panic::catch_unwind(AssertUnwindSafe(|| {
            compiler::compile(&mut vm, src.clone(), None)
        }));
        match r {
            Ok(Ok(f)) => {
                if wants_dump {
                    let i = dump_function(&*f, &mut resp.functions);
                    resp.batch_roots.push(Some(i));
                }
                resp.results.push(SnippetResult { out: vec![], outcome: Outcome::Ok });
            }
            Ok(Err(e)) => {
                if wants_dump {
                    resp.batch_roots.push(None);
                }
                resp.results.push(SnippetResult {
                    out: vec![],
                    outcome: Outcome::Err {
                        kind: kind_name(e.kind()).to_string(),
                        messages: e.messages().clone(),
                    },
                });
            }
            Err(_) => {
                resp.results.push(SnippetResult {
                    out: vec![],
                    outcome: Outcome::Panic {
                        msg: PANIC_MSG.with(|p| p.borrow_mut().take()).unwrap_or_default(),
                    },
                });
                std::mem::forget(vm);
                return true;
            }
        }
    }
    false
}

#[cfg(feature = "hooks")]
fn handle_intern(req: &Request, resp: &mut Response) -> bool {
    use yarel::vm::verif_vm::VerifInternTable;
    let never = req.gc.as_ref().map(|g| g.mode == "never").unwrap_or(false);
    let r = panic::catch_unwind(AssertUnwindSafe(|| {
        let mut vm = Vm::new();
        // long ladders: the strings of the stand-alone table are rooted anyway, so collecting at every
        // allocation (checked build) only costs time quadratic in the ladder's length
        if never {
            yarel::memory::verif::set_gc_mode(yarel::memory::verif::GcMode::Never);
        }
        let mut all = Vec::new();
        let alts: Vec<Option<&InternOp>> = if req.intern_alts.is_empty() {
            vec![None]
        } else {
            req.intern_alts.iter().map(Some).collect()
        };
        for alt in alts {
            let mut table = VerifInternTable::new();
            let mut ids: BTreeMap<usize, usize> = BTreeMap::new();
            let norm = |addr: usize, ids: &mut BTreeMap<usize, usize>| -> usize {
                let n = ids.len();
                *ids.entry(addr).or_insert(n)
            };
            let apply = |table: &mut VerifInternTable,
                             vm: &mut Vm,
                             op: &InternOp,
                             ids: &mut BTreeMap<usize, usize>|
             -> (Option<usize>, bool) {
                if op.k == "probe" {
                    (table.probe(op.hash, &op.text).map(|a| norm(a, ids)), false)
                } else {
                    let (a, new) = table.intern(vm, op.hash, &op.text);
                    (Some(norm(a, ids)), new)
                }
            };
            let mut prefix_ids = Vec::new();
            for op in &req.intern_prefix {
                let (id, _) = apply(&mut table, &mut vm, op, &mut ids);
                prefix_ids.push(id);
            }
            let (id, was_new) = match alt {
                Some(op) => apply(&mut table, &mut vm, op, &mut ids),
                None => (None, false),
            };
            let (slots, size, mask) = table.dump();
            let slots = slots
                .into_iter()
                .map(|s| s.map(|(h, t, a)| {
                    let n = ids.len();
                    (h, t, *ids.entry(a).or_insert(n))
                }))
                .collect();
            all.push(InternObs { id, was_new, slots, size, mask, prefix_ids });
        }
        all
    }));
    yarel::memory::verif::set_gc_mode(yarel::memory::verif::GcMode::Default);
    match r {
        Ok(all) => {
            resp.intern = all;
            false
        }
        Err(_) => {
            resp.results.push(SnippetResult {
                out: vec![],
                outcome: Outcome::Panic {
                    msg: PANIC_MSG.with(|p| p.borrow_mut().take()).unwrap_or_default(),
                },
            });
            true
        }
    }
}

#[cfg(not(feature = "hooks"))]
fn handle_intern(_req: &Request, resp: &mut Response) -> bool {
    resp.unsupported.push("intern".into());
    false
}

fn serve() {
    panic::set_hook(Box::new(|info| {
        let msg = if let Some(s) = info.payload().downcast_ref::<&str>() {
            s.to_string()
        } else if let Some(s) = info.payload().downcast_ref::<String>() {
            s.clone()
        } else {
            "<non-string panic>".to_string()
        };
        let loc = info
            .location()
            .map(|l| {
                let f = l.file();
                let f = f.rsplit('/').next().unwrap_or(f);
                format!(" @ {}:{}", f, l.line())
            })
            .unwrap_or_default();
        PANIC_MSG.with(|p| *p.borrow_mut() = Some(format!("{}{}", msg, loc)));
    }));
    let stdin = io::stdin();
    let stdout = io::stdout();
    let mut line = String::new();
    loop {
        line.clear();
        match stdin.lock().read_line(&mut line) {
            Ok(0) | Err(_) => return,
            Ok(_) => {}
        }
        let req: Request = match serde_json::from_str(&line) {
            Ok(r) => r,
            Err(e) => {
                eprintln!("runner: bad request: {}", e);
                std::process::exit(3);
            }
        };
        let mut resp = Response { id: req.id, config: config_string(), ..Default::default() };
        let must_exit = match req.op.as_str() {
            "run" => match req.stack_kb {
                None => handle_run(&req, &mut resp),
                Some(kb) => {
                    // on a thread of its own with the requested stack size (heap, module table and
                    // panic message are per thread); an overflow of that stack aborts the process,
                    // which the explorer records as a crash
                    let sub = req.clone();
                    let mut r = resp.clone();
                    let handle = std::thread::Builder::new().stack_size(kb * 1024).spawn(move || {
                        let stop = handle_run(&sub, &mut r);
                        (r, stop)
                    });
                    match handle.map(|h| h.join()) {
                        Ok(Ok((r, stop))) => {
                            resp = r;
                            stop
                        }
                        _ => {
                            eprintln!("runner: could not run the request on its own thread");
                            std::process::exit(3);
                        }
                    }
                }
            },
            "run_each" => {
                // every snippet is an independent program on its own fresh interpreter
                let mut stop = false;
                for src in &req.snippets {
                    let mut sub = req.clone();
                    sub.snippets = vec![src.clone()];
                    let mut r = Response::default();
                    stop = handle_run(&sub, &mut r);
                    resp.results.extend(r.results);
                    resp.uaf.extend(r.uaf);
                    resp.monitor_checks += r.monitor_checks;
                    resp.monitor_failures += r.monitor_failures;
                    resp.unsupported.extend(r.unsupported);
                    if stop {
                        break;
                    }
                }
                stop
            }
            "compile" => handle_compile(&req, &mut resp),
            "compile_batch" => handle_compile_batch(&req, &mut resp),
            "intern" => handle_intern(&req, &mut resp),
            "opcodes" => {
                resp.opcodes = opcode_table();
                false
            }
            _ => false,
        };
        let text = serde_json::to_string(&resp).expect("serialise response");
        let mut out = stdout.lock();
        out.write_all(text.as_bytes()).unwrap();
        out.write_all(b"\n").unwrap();
        out.flush().unwrap();
        if must_exit {
            std::process::exit(0);
        }
    }
}

fn main() {
    // A runner whose explorer has gone (it exited on a machinery failure, or was killed) must not keep
    // running the program it was given: without the hooks there is no instruction budget to stop it.
    let parent = std::os::unix::process::parent_id();
    std::thread::spawn(move || loop {
        std::thread::sleep(std::time::Duration::from_millis(500));
        if std::os::unix::process::parent_id() != parent {
            std::process::exit(0);
        }
    });
    // A big, fixed stack so that the host-stack depth reached by recursive Display/==/mark is a property
    // of the program under test and not of the environment's ulimit.
    let t = std::thread::Builder::new()
        .stack_size(512 << 20)
        .spawn(serve)
        .expect("spawn");
    let _ = t.join();
}
