#!/bin/bash
# verify_seed.sh <ID> : in the agent's scratch worktree /tmp/seed_<ID> (change applied):
#  - suite baseline with the change, demo output with and without the change
ID=$1; WT=/tmp/seed_$ID
cd $WT || exit 2
echo "== patch"; cat SEED/patch.diff | head -60
echo "== suite WITH change"; CARGO_NET_OFFLINE=true timeout 900 cargo test --workspace --no-fail-fast --offline 2>&1 | grep -E "^test result|FAILED" | tr '\n' ' ' | cut -c1-400; echo
DEMO=$(ls SEED/demo.yl 2>/dev/null)
if [ -n "$DEMO" ]; then
  echo "== demo WITH change"; CARGO_NET_OFFLINE=true timeout 120 cargo run --offline -q -p yarel-cli -- SEED/demo.yl 2>&1 | head -20; echo "exit ${PIPESTATUS[0]}"
  git apply -R SEED/patch.diff && echo "== demo WITHOUT change" && CARGO_NET_OFFLINE=true timeout 120 cargo run --offline -q -p yarel-cli -- SEED/demo.yl 2>&1 | head -20; echo "exit ${PIPESTATUS[0]}"
  git apply SEED/patch.diff
fi
