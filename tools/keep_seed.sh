#!/bin/bash
# keep_seed.sh <ID> <dirname> : copy the agent's SEED directory from /tmp/seed_<ID> to /verif/seeded/<dirname>
# (small text files only) and remove the scratch worktree with its build output.
ID=$1; NAME=$2; WT=/tmp/seed_$ID; D=/verif/seeded/$NAME
mkdir -p $D
find $WT/SEED -maxdepth 2 -type f -size -200k | while read f; do rel=${f#$WT/SEED/}; mkdir -p "$D/$(dirname "$rel")"; cp "$f" "$D/$rel"; done
git -C /repo worktree remove --force $WT && echo "worktree $WT removed"
ls $D
