#!/bin/bash
# all_seeds.sh : for every seeded change, apply it to /repo, run the quick check of the property it
# breaks, expect a VIOLATION, undo.  Prints one line per seed.  (Development aid; not a registered check.)
cd /repo && git status --short | grep -q . && { echo "/repo not clean"; exit 2; }
# runs against a changed tree must not leave their evidence behind
KEEP=$(mktemp -d /tmp/evidence.keep.XXXXXX); cp -a /verif/evidence/. "$KEEP"/
# optional argument: a glob over the seed directory names (default: all), e.g. tools/all_seeds.sh 'C??-9-*'
PAT=${1:-*}
for d in /verif/seeded/$PAT/; do
  name=$(basename $d); id=${name%%-*}
  # a change that breaks its property by way of another property's territory (freed memory, closures) is
  # reported by that property's check: check_with.txt names it
  [ -f $d/check_with.txt ] && id=$(cat $d/check_with.txt)
  [ -f $d/superseded.txt ] && { echo "$name: superseded (see superseded.txt)"; continue; }
  P=$d/patch.diff; [ -f $d/patch_ported.diff ] && P=$d/patch_ported.diff
  cd /repo
  if ! git apply --check $P 2>/dev/null; then echo "$name: PATCH DOES NOT APPLY"; continue; fi
  git apply $P
  out=$(cd /verif && timeout 1500 ./check $id quick 2>&1 | grep -a -E "^$id quick|^VIOLATION|MACHINERY" | tail -1 | cut -c1-120)
  cd /repo && git checkout -- .
  echo "$name: $out"
done
cd /repo && git status --short
rm -rf /verif/evidence; mkdir -p /verif/evidence; cp -a "$KEEP"/. /verif/evidence/; rm -rf "$KEEP"
