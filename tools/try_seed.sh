#!/bin/bash
# try_seed.sh <patch.diff> <ID>... : apply the patch to /repo, run the named quick checks, undo.
P=$1; shift
cd /repo && git status --short | grep -q . && { echo "/repo not clean"; exit 2; }
# runs against a changed tree must not leave their evidence behind
KEEP=$(mktemp -d /tmp/evidence.keep.XXXXXX); cp -a /verif/evidence/. "$KEEP"/
git apply "$P" || { echo "patch does not apply"; exit 2; }
for id in "$@"; do
  cd /verif && timeout ${SEED_CAP:-1500} ./check $id quick 2>&1 | grep -a -E "^C[0-9]+ quick|^VIOLATION|MACHINERY" | tail -3
done
cd /repo && git checkout -- . && git status --short
rm -rf /verif/evidence; mkdir -p /verif/evidence; cp -a "$KEEP"/. /verif/evidence/; rm -rf "$KEEP"
