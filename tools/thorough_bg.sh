#!/bin/bash
# thorough_bg.sh [ID...] : meant for `vp run --with-repo -- tools/thorough_bg.sh`: runs thorough tiers in the
# snapshot against the snapshot of /repo's HEAD ($VP_RUN_REPO), so that seeds applied to /repo meanwhile do not
# disturb it. Development aid; nothing it writes is evidence.
R=${VP_RUN_REPO:-/repo}
sed -i "s#\"/repo/yarel\"#\"$R/yarel\"#" harness/runner/Cargo.toml
cp $R/Cargo.lock harness/Cargo.lock 2>/dev/null
export VERIF_REPO=$R
IDS="$@"; [ -z "$IDS" ] && IDS="C01 C02 C03 C04 C05 C06 C07 C08 C10 C11 C12 C13 C14 C15 C16 C17 C18 C19 C09"
for id in $IDS; do
  s=$(date +%s); ./check $id thorough > thorough-$id.log 2>&1; rc=$?; e=$(date +%s)
  echo "$id rc=$rc $((e-s))s viol=$(grep -a -c '^VIOLATION' thorough-$id.log) kf=$(grep -a -c '^KNOWN-FINDING' thorough-$id.log) :: $(grep -a "^$id thorough" thorough-$id.log | tail -1 | cut -c1-200)"
done
