#!/usr/bin/env python3
"""Regenerates /verif/MANIFEST.json from the table below (kept in one place so it stays valid)."""
import json, subprocess, os
HERE = os.path.dirname(os.path.dirname(os.path.abspath(__file__)))
ALL = ["C%02d" % i for i in range(1, 20)]

# id -> (technique, level text, level note, design_ref)
CHECKS = {
 "C03": ("bounded-exhaustive input enumeration on the real compiler + explicit-state (pc,height) reachability of every accepted function",
         "Every input of seven exhaustively enumerated families (all prefixes of all repository scripts, token-level mutants at every token position, character-level mutants (every single-character deletion, insertion of ten lexically significant characters at every / every third position), all token sequences up to length 3/4 over the full 72-kind vocabulary, nesting ladders and limit-sized programs, valid programs with a stray closer at every position, five error-recovery templates under deletion / duplication / swap / replacement by / insertion of each of 71 token kinds at every token position) is compiled by the real compiler in a crash-isolated child; outcome must be Ok xor located CompileError, never panic/hang; accepted functions must be structurally valid code.",
         "Trusts: the runner's panic/crash/timeout capture; M-vm's stack-effect table (bound to the compiler by C04's conformance run). Bounded: inputs outside the families are not covered.",
         "5/C03"),
 "C05": ("bounded-exhaustive program enumeration, every case executed on the real interpreter and compared with the reference evaluator M-eval",
         "Every program of families E1-E7 (operator x operand-kind pairs, failing statements of 12 shapes run twice with every name involved probed afterwards - E7 'a failing statement changes nothing', operators applied again to the same operand objects after other applications - E6 'operators have no memory', all operator chains of 3/4 operands in every grouping with minimal and full parentheses, evaluation-order probes, every statement tree up to 4/5 nodes on every input vector) is run on the real VM (fresh interpreter per program, crash-isolated) and must print the lines and end with the outcome/error class M-eval computes; disagreements are confirmed twice in isolation.",
         "Trusts M-eval as the language definition (DESIGN.md Appendix A; it agreed with the implementation on every enumerated case when written). Bounded by program size.",
         "5/C05"),
 "C06": ("bounded-exhaustive program enumeration vs the reference evaluator M-eval (cell-based environments), plus metamorphic wrappings",
         "Every combination of scope kind x exit path x two closures with every read/write action over two variables through 0-2 intermediate function levels, called inside and after the scope; fresh-variable, shadowing, textual-resolution, many-closures, capture-order (F7), after-return-from-another-module (F8) and handled-exception-in-the-owning-frame (F9) families; each program also wrapped in a block, a function and a fiber. All run on the real VM and compared with M-eval.",
         "Trusts M-eval's environment model. Bounded: 2 closures x 2 variables (3x3 in one family), nesting depth 3.",
         "5/C06"),
 "C08": ("bounded-exhaustive program enumeration vs the reference evaluator M-eval; disagreements attributed to listed findings only through trigger predicates on the model's own execution",
         "Every nest (depth 2 quick / 3 thorough) of try/catch/finally forms, loops, calls and blocks with every leaf action (throws of 4 value kinds, 6 failing built-ins, deep callee throws, callees that return through try/finally or whose finally block itself returns while a return / an exception is waiting, return, break, continue - also out of finally blocks), including nests whose focus sits inside a finally block while a return is pending, every sequential pair of nests, and loops whose body is a pair (a try statement holding a finished inner loop, then an exit statement inside another try statement), run on the real VM and compared with M-eval's block trace and outcome.",
         "No open finding: every case must agree with M-eval exactly (the formerly listed KF-C08-01..04 are repaired in /repo and their witnesses are re-run; the trigger table is empty and a panic is never attributable). Bounded by nest depth.",
         "5/C08"),
 "C07": ("bounded-exhaustive program enumeration vs the reference evaluator M-eval (class chain walks, lexical super)",
         "Every class hierarchy of depth 1-3 with per-class choices of method m (absent/plain/super call/super value/super call inside a nested lambda; methods report their receiver), n (calls self.m), four constructor forms, probed on instances of the two most derived classes with calls, bound values, arities, unknown members, shadowing fields (closures and nil/false/0), constructors reached through instances and as values, type/derives; static methods and Self; super in instance, static and constructor methods under 5 nestings (lambda, named function, lambda in lambda, escaping lambda) of classes declared in 5 places (top level, function, instance / static method of another class, lambda in a method) - G6; local classes; every non-class superclass; construction rules. Run on the real VM and compared with M-eval.",
         "Trusts M-eval's class model (Appendix A). Bounded: depth 3, two method names.",
         "5/C07"),
 "C14": ("exhaustive enumeration of import graphs (configurations) vs the reference evaluator M-eval with a module table",
         "All 4096 import graphs over {main,a,b,c} (every edge, self-loop and main edge independently), every import guarded and followed by a use, identity/isolation/built-in probes, plus placement variants (in functions called 0/1/2 times, missing/uncompilable modules caught/uncaught/aliased, directory paths, a 3-cycle), a module that defines names built-ins also have and receives attributes from outside, imported again in every ordered pair of six ways with both views printed after each (a later import changes nothing), and exceptions that cross module frames (8 ways a module body or a function of another module fails x 3 handler shapes x importer main / a module; after the handler the importer reads, defines and assigns globals and the check confirms where they landed); each run on the real VM with a module loader serving the generated sources and compared with M-eval.",
         "Trusts M-eval's module model. Importing a module again after its body threw is outside the alphabet (X). Bounded: 3 modules besides main.",
         "5/C14"),
 "C17": ("bounded-exhaustive program enumeration vs M-eval (class, text, kind, full trace) + caught==uncaught differential on the implementation + stray-token line enumeration",
         "Every call chain of depth <=3/4 over 8 link kinds (function, method, static, lambda, constructor, map/reduce callbacks through the library, fiber) with 12 failing statements at the bottom (in place, in a module function, as a module body), one statement per line: the uncaught report's class, message, ErrorKind and every trace entry must equal M-eval's; the caught variant must see the same class. The same after an earlier, completely handled exception (6 shapes) placed in each active frame (chains to depth 2/3). 26 failing statements (incl. host natives of every ErrorKind) are checked caught==uncaught on the implementation itself; a stray token before every statement of a multi-line program must be reported at its own line; a module that does not compile (stray token at 8 places x 5 tokens) must be reported with its name, line and token at every one of nine attempts to import it (seven placements in one program, then two more programs on the same interpreter).",
         "Message texts of built-in errors come from the caught==uncaught differential, not from a table. Uncaught exceptions passing through finally blocks are outside C17's alphabet.",
         "5/C17"),
 "C18": ("bounded-exhaustive program enumeration vs M-eval (model sequences; index-based vec iteration)",
         "for loops over every vec/tuple of length 0-3, every range with bounds in [-2,3] and 16 ranges with end points at or beyond the largest machine integers, every string up to 2/3 chars over a 1-4-byte alphabet, user-defined iterables (iterator, iterator whose iter() starts over, collection with a separate cursor class); break/continue/return at every position; nested and shared iterators; every map/filter chain to depth 2/3 with 5 callbacks, reduce, collect (on user-defined iterables both through iter() and directly on the object, on a reused object, after a loop left by break); protocol violations; vec mutation at every position; every ordered pair of ranges with bounds in [-2,3] used one after the other in one interpreter, directly and with nine other ranges in between (ranges have no memory). All on the real VM vs M-eval (which runs the library's own Iter/MapIter/FilterIter definitions as AST).",
         "Trusts M-eval's iteration model (Appendix A).",
         "5/C18"),
 "C13": ("bounded-exhaustive input enumeration vs the byte-exact reference model M-str",
         "Every string over a 1/2/3/4-byte alphabet up to 3/4 characters x every integer index and slice bound in [-len-2,len+2] (all mid-character offsets) plus fractional/NaN/inf/2^53/2^63/non-number indices; vecs and tuples of 0-4 elements likewise incl. item assignment; every string method with every 1-2 character needle and every start; from_ascii/from_utf8/from_code_points over all boundary byte vectors and code points; escape forms. 52k (quick) probes, one printed line each, compared byte for byte (error class on failure).",
         "Trusts M-str (written over bytes, independent of std's char_indices/split/replace except to_num). (Q) quirks transcribed: see DESIGN.md Appendix A.",
         "5/C13"),
 "C19": ("bounded-exhaustive input enumeration vs M-num/M-lex (exact integer arithmetic for nearestness; hand-expanded shortest digits)",
         "Every double +-(1+j/2^m)*2^e for all exponents (normal and subnormal), m=4/7, plus boundaries (10^k neighbours for all k, 2^53/2^63 neighbours, subnormal limits, zeros, NaN, inf) built exactly from integers and powers of two: print->parse returns the identical number, text equals the model's, interpolation agrees; every literal digits[.digits] up to 5/6 characters, 1280 integer literals of 15-19 digits and the printed text of every enumerated double used as a literal equal the exactly constructed nearest double; every digit string up to 3 digits in each `.`-lookahead context (positive by construction, negative by expected compile error).",
         "Where two shortest digit strings round-trip, the printed text is not compared (tie-breaking is not fixed by the property). Long-literal nearestness relies on the host parser.",
         "5/C19"),
 "C11": ("explicit-state breadth-first search over intern/probe sequences on the real intern table (canonical state = its slot array) + exhaustive producer-pair enumeration through the language",
         "Level 1: BFS to depth 8/10 over 13/16 keys with designed hashes (low-bit collisions surviving 0/1/2 growths, collisions in the last slot of the table at each size so that probe chains wrap, an identical-full-hash pair, the empty string): every transition replayed on a fresh real table through the hook and compared with a reference map; in every state: no duplicate entry, size = occupied, power-of-two capacity, load <= 0.75, unbroken probe chains, every interned key present with the object first given. Level 2: producer pairs of each target string x filler counts: ==, map and tuple-key selection, one-byte-different strings distinct, host-created names. Level 3: growth at every size - after every number 0..800/3200 of filler keys (two hash families) each of eight trigger keys chosen against the table's observed capacity is interned on a fresh copy of the real table; whole slot array vs reference and invariants; lookups repeated after every growth. Level 4: ladders of up to 3500/14000 strings produced twice by different producers and of up to 1600/3200 global names through the language.",
         "Level 1 uses a feature-guarded wrapper mirroring new_gc_obj_string with caller-chosen hashes. The language has no computed field/method names; selection is exercised through maps, tuples, globals.",
         "5/C11"),
 "C12": ("explicit-state breadth-first search over HashMap operation sequences with reference M-map; every transition executed on the real map",
         "BFS (<=3/4 live entries, depth 4/5) from the empty map and 12 literals over insert/remove with every key of a 26-key pool (ten other ranges are built before every operation and every dump, so that separately written equal ranges are separate objects) (key objects reused across operations in one family) (1 vs 1.0, 0 vs -0, separately built equal tuples/strings/ranges, a tuple holding a range, nested tuples, NaN, a class, 5 unhashables) and clear; from a rebuilt copy of every state every operation is executed and followed by a full order-independent dump, then by a write, a read and a removal of a key outside the pool and a second dump (the map must still work after a rejected operation); compared with M-eval's association-list map.",
         "keys/values/items are compared through order-independent probes. An overwritten entry keeps the first-inserted key object.",
         "5/C12"),
 "C09": ("explicit-state breadth-first search over the coroutine model M-fiber; every transition replayed on the real VM",
         "For every pair of scripted fibers (fiber 0: all scripts up to 2/3 actions over a 10-action alphabet under 8 wrappers incl. try/finally around the script, the script inside a finally block, and a local declared before a try/catch around calls made as expression statements, with/without parameter; fiber 1: representative or all short scripts) BFS over main-program action sequences (call with 0/1/2 arguments, has_finished, top-level yield) up to length 5/6 with canonical hashing of the model state (status, continuation, handler stack, captured counter per fiber); states reached by an action that was reported as an error keep a marker and are explored further with that action in the path (errors must leave every fiber untouched); each of the ~400k (quick) transitions is replayed as a program (definitions + action path) whose printed labels and outcome must equal the model's; the active-fiber/raw-pointer agreement monitor runs at every instruction fetch. Plain-wrapper transitions are replayed a second time with the fibers defined in an imported module and a main program that uses a global of its own after every action.",
         "Exceptions leaving a fiber's outermost frame end the run (fixed by the repository's own script). Which error class wins when a running fiber is re-entered with a wrong argument count is not fixed by the property and is left out.",
         "5/C09"),
 "C15": ("explicit-state breadth-first search over snippet histories with reference M-repl; every transition replayed on a fresh real interpreter",
         "BFS over histories (length 5/8) of 39 snippets (imports of a module that does not compile and of a module whose body throws, before and after a reset; a probe of every built-in name; assignments to undefined globals and a failing initialiser, probed for names that must not exist; definitions/uses, compile error, uncaught throws from top level, nested calls, a fiber, a chain of two fibers, try/finally, a half-declared class, a built-in inside a method, after a closure escaped from the failing call frame / fiber; clean try/finally and try/catch probes, probes of the dead fibers and of the escaped closures, a fiber suspended inside try/finally and resumed later, import and module mutation, reset) with canonical model state; each transition is the shortest history to its source state plus the snippet, run on one real Vm; per-snippet output and outcome must equal the model's; no panic; a second family runs every history up to length 3/4 over the whole alphabet without merging by model state (a failing snippet leaves the model state unchanged, so the merging search never runs anything after it); swept objects are quarantined and any touch of freed memory is a violation.",
         "Counters bounded to keep the state space finite.",
         "5/C15"),
 "C04": ("explicit-state reachability over the abstract (pc, operand-stack height) space of every compiled function (M-vm) + trace conformance + limit-sized program enumeration",
         "For each of ~185k functions compiled from the repository scripts, core.yl and the C05/C06/C07/C08/C18 generator corpora, every abstract state (pc, height) is explored (14M states quick) including exceptional and finally-return edges, with the structural invariants of the property checked in every state and one height per pc; with the instruction-trace hook ~190k concretely executed (function, pc, height) points must lie in the abstract set; for every jump kind a body is sized (operand measured from the emitted code) so that the distance is 65534..65537, and every count limit (locals, captures, parameters, arguments, elements, interpolation parts, constants) is straddled: rejected with a compile error or exactly the expected output. A generated program that the model resolver accepts is valid by construction: the compiler rejecting it is a violation, not a skipped case.",
         "No open finding (KF-C04-01, a finally block entered at two heights, is repaired; its witness is re-run). Variable identity on every path is decided behaviourally by C05/C06.",
         "5/C04"),
 "C01": ("exhaustive enumeration of programs x GC schedules on the real collector (schedule hook; swept objects quarantined so every later touch is reported)",
         "Every heap-shape program (root kind - global, local, closed variable, and three two-run roots: a variable of a frame or fiber that an uncaught error discarded in an earlier run on the same interpreter - x holder chain of length <= 2 over 29 holder kinds - 17 data-structure edges, 6 operations on temporaries (slice, index, collect, items, values) and 6 kinds of transient interpreter state: a return waiting for a finally block, an exception in flight through a finally block, values in transfer between fibers, operands of an unfinished literal or call - x 20 referent kinds, 27k programs) and the C05/C06/C07/C08/C18 corpora plus the C14 (modules) and C17 (error paths) corpora with their module tables run under never (comparison), always (collect at every allocation) and, for the small programs, only{i} for every allocation index (all pairs in the thorough tier): no use-after-free event (dereference of a swept object, open captured variable into a swept fiber stack, object swept while borrowed), output identical to the never-collect run, no crash.",
         "`always` dominates every other schedule under the quarantine (argued in DESIGN.md and validated by the only{i} runs: 0 counterexamples). No open finding (KF-C01-01 is repaired; its witness is re-run).",
         "5/C01"),
 "C02": ("exhaustive sweeps of built-ins x receivers x adversarial argument tuples, operator constructs x value kinds, and a resource grid, on the real VM in its checked configuration",
         "Every built-in method on a proper receiver and on an instance of a language-level subclass of the built-in class, with every argument tuple of its arity over a 46-value adversarial pool (incl. tuples holding unhashable values, the receiver itself and a tuple / vec holding the receiver), also reached through super from a subclass method, and neighbouring arities, each call made twice on the same argument objects and required to behave the same; 20 unary and 6 binary constructs over every value / ordered pair; slices over extreme bounds; recursion depth x frame width; nesting ladders to 10^4 on the checked runner and to 2x10^5 / 10^6 on the optimised runner on a thread with an ordinary 8 MiB stack; every uncaught-error program of C17's generator; self-containing data, mutation during iteration, fiber misuse. The run must end Ok or with a reported error, never panic/crash/hang, and a failing built-in call inside try/catch must reach the handler with an error-class instance.",
         "One open finding (KF-C02-03: printing, comparing and hashing data nested 30 000 to 100 000 levels deep overflows an ordinary 8 MiB host stack), attributed by case identity (four shapes of the deep-nesting family ending in a crash). Every other corpus of this framework also runs on the checked runner, where a panic is a mismatch.",
         "5/C02"),
 "C10": ("exhaustive enumeration of build configurations x programs on really built binaries",
         "The dev profile and the release profile with none/all (quick) or every one of the 32 subsets (thorough) of the five feature switches are built from /repo's working tree with the hooks OFF; every repository script (with its module table), every 4th/2nd program of the generator corpora, C01's heap-shape programs (chains <= 1) and a loop-churn family (8 iterables x 7 kinds of fresh objects allocated in the loop body) run on every configuration; printed lines and outcome (addresses normalised) must be identical across configurations; every disagreement is observed twice and a configuration that differs from the reference in either round is reported (run-to-run variation of a disagreeing configuration is itself reported with both rounds).",
         "Only programs that exhaust the hooks runner's instruction budget are left out (a panic of the checked build is a disagreement like any other). The fiber/raw-pointer agreement monitor runs in C09's replays.",
         "5/C10"),
 "C16": ("exhaustive enumeration of loop programs + runtime invariant monitor over every allocation event of the optimised build",
         "Every loop program whose body is a multiset of 1-2 (3) of 27 allocation kinds (incl. a fiber run by a fiber and handed on, closures made at every level of a recursion, thrown objects caught, re-thrown through finally blocks or given up by a finally block left with break / continue) x 3 live-set shapes runs in the release build with the allocation log: at each of ~2M allocation/collection events the pacing rule (no allocation at/above the threshold without a collection; heap <= max(2 x survivors, 64 KiB) + one allocation; threshold = 2 x survivors; collections only when the threshold was reached), continuous and exact accounting, a clean residue after dropping the interpreter, and equal live-object counts after n and 2n iterations - at the end of the run and, by a collection forced from inside the running loop, at the end of iteration n and of iteration 2n - are checked; each verdict is computed twice and a verdict that differs between the two runs is a machinery failure, not a violation.",
         "Interned strings and compiled code are excluded from the n-vs-2n comparison by type name, as the property states.",
         "5/C16"),
}
NOT_YET = "check not built yet in this revision of /verif (work in progress; see DESIGN.md section 10)"

def main():
    hooks_commits = []
    try:
        out = subprocess.run(["git", "-C", "/repo", "log", "--format=%h %s"], capture_output=True, text=True).stdout
        hooks_commits = [l.split()[0] for l in out.splitlines() if l.split(" ", 1)[1].startswith("verif_hooks:")]
    except Exception:
        pass
    checks = []
    for pid in ALL:
        if pid not in CHECKS:
            continue
        tech, text, note, ref = CHECKS[pid]
        checks.append({
            "property_id": pid,
            "quick_cmd": "./check %s quick" % pid,
            "thorough_cmd": "./check %s thorough" % pid,
            "evidence_file": "/verif/evidence/%s.json" % pid,
            "replay_cmd_template": "./check %s quick --replay {path}" % pid,
            "engine": "explorer",
            "level_claimed": {"category": "model_checking", "text": text, "design_ref": "DESIGN.md section " + ref},
            "level_note": note,
            "technique": tech,
        })
    m = {
        "version": 1,
        "setup_cmd": "cd /verif/harness && CARGO_NET_OFFLINE=true cargo build --offline -q -p explorer --release && CARGO_NET_OFFLINE=true cargo build --offline -q -p runner && CARGO_NET_OFFLINE=true cargo build --offline -q -p runner --release && cd /verif && VERIF_BUILD_ONLY=1 ./check C10 quick",
        "hooks": {
            "guard": "cargo feature `verif_hooks` of the yarel crate (off by default)",
            "enable": "the runner crate depends on /repo/yarel with features=[\"verif_hooks\"]; every check runs `cargo build` of the runner first, which rebuilds yarel from /repo's working tree",
            "baseline_off_cmd": "cd /repo && (cargo nextest run --workspace --no-fail-fast --tool-config-file pb:/w/lib/nextest.toml --profile pb --test-threads 8 --offline || cargo test --workspace --no-fail-fast --offline)",
            "source_commits": hooks_commits,
            "add_only": True,
        },
        "engines": [
            {"name": "explorer", "path": "/verif/harness/explorer", "serves_properties": sorted(CHECKS),
             "kind_free_text": "bounded-exhaustive enumeration and explicit-state search; reference models; decides verdicts; does not link yarel"},
            {"name": "runner", "path": "/verif/harness/runner", "serves_properties": sorted(CHECKS),
             "kind_free_text": "links the real yarel crate (hooks on); executes every enumerated case / replays every model transition; crash-isolated child processes"},
        ],
        "checks": checks,
        "not_applicable": [{"property_id": p, "reason": NOT_YET} for p in ALL if p not in CHECKS],
        "notes": "All checks: ./check <ID> <quick|thorough>; exit 0 = held (KNOWN-FINDING lines are listed findings, not alarms), exit 1 = VIOLATION line, exit >=2 = machinery failure. Fixed and open findings: /verif/known_findings.json. Design: /verif/DESIGN.md.",
    }
    json.dump(m, open(os.path.join(HERE, "MANIFEST.json"), "w"), indent=1)
    print("MANIFEST.json: %d checks, %d not_applicable" % (len(checks), len(m["not_applicable"])))

if __name__ == "__main__":
    main()
