#!/bin/bash
# all_seeds_bg.sh : meant for `vp run --with-repo -- tools/all_seeds_bg.sh`.  Applies every seeded change to the
# snapshot of /repo's HEAD ($VP_RUN_REPO), runs the quick check of the property it breaks in the snapshot of
# /verif, expects a VIOLATION, reverts.  One line per seed.  Development aid; nothing it writes is evidence.
R=${VP_RUN_REPO:-/repo}
sed -i "s#\"/repo/yarel\"#\"$R/yarel\"#" harness/runner/Cargo.toml
cp /repo/Cargo.lock harness/Cargo.lock 2>/dev/null
cp /repo/Cargo.lock $R/Cargo.lock 2>/dev/null
export VERIF_REPO=$R
for d in seeded/*/; do
  name=$(basename $d); id=${name%%-*}
  [ -f $d/check_with.txt ] && id=$(cat $d/check_with.txt)
  [ -f $d/superseded.txt ] && { echo "$name: superseded"; continue; }
  [ -f $d/patch.diff ] || continue
  P=$PWD/$d/patch.diff; [ -f $d/patch_ported.diff ] && P=$PWD/$d/patch_ported.diff
  if ! git -C $R apply --check $P 2>/dev/null; then echo "$name: PATCH DOES NOT APPLY"; continue; fi
  git -C $R apply $P
  out=$(timeout 1500 ./check $id quick 2>&1 | grep -a -E "^$id quick|MACHINERY" | tail -1 | cut -c1-110)
  git -C $R checkout -- .
  echo "$name: $out"
done
