import json,subprocess,sys
def run(reqs, runner='/verif/harness/target/debug/runner'):
    inp=''.join(json.dumps(r)+'\n' for r in reqs)
    p=subprocess.run([runner],input=inp.encode(),capture_output=True)
    return [json.loads(l) for l in p.stdout.decode().splitlines()], p.returncode
if __name__=='__main__':
    src=sys.stdin.read()
    r,rc=run([{"id":1,"op":"run","snippets":[src],"want":sys.argv[1:]}])
    print(json.dumps(r,indent=1)[:4000], rc)
